//! C16 correspondence: text and byte codecs of the real interpreter vs the Impl model
//! (lean/NoulithModel/Impl/Codec.lean) vs the Spec (Spec/CodecSpec.lean).
//!
//! Inputs that are strings / byte strings / nested values are bound as variables in the
//! interpreter's environment (so that no lexer escape is involved); integers are produced by source
//! expressions in a chosen representation (Small / Big).
use noulith::{Obj, ObjKey, ObjType, Rc, Seq};
use num::bigint::BigInt;
use num::{Signed, ToPrimitive, Zero};
use std::collections::HashMap;
use vharness::*;

// ---------------------------------------------------------------------------------------------
// values
#[derive(Clone, Debug)]
enum V {
    Null,
    Int(BigInt),
    /// the same integer value, but held in the Big representation (produced by a source expression)
    IntBig(BigInt),
    Float(f64),
    Str(String),
    Bytes(Vec<u8>),
    List(Vec<V>),
    Dict(Vec<(String, V)>),
    Func,
}
impl V {
    fn to_obj(&self, it: &Interp) -> Obj {
        match self {
            V::Null => Obj::Null,
            V::Int(i) => Obj::from(i.clone()),
            V::IntBig(i) => {
                let how = (i.magnitude() % 3u32).to_u64().unwrap_or(0);
                let e = match how {
                    0 => format!("({}^1)", lit(i)),
                    1 => format!("(2^70+{}-2^70)", lit(i)),
                    _ => format!("(({}*2^70)//2^70)", lit(i)),
                };
                it.eval_obj(&e).unwrap_or(Obj::Null)
            }
            V::Float(f) => Obj::from(*f),
            V::Str(s) => Obj::from(s.clone()),
            V::Bytes(b) => Obj::Seq(Seq::Bytes(Rc::new(b.clone()))),
            V::List(xs) => Obj::list(xs.iter().map(|x| x.to_obj(it)).collect()),
            V::Dict(kvs) => {
                let mut m: HashMap<ObjKey, Obj> = HashMap::new();
                for (k, v) in kvs {
                    m.insert(ObjKey::from(k.clone()), v.to_obj(it));
                }
                Obj::dict(m, None)
            }
            V::Func => it.eval_obj("len").unwrap_or(Obj::Null),
        }
    }
    /// token of the driver's prefix syntax
    fn token(&self) -> String {
        match self {
            V::Null => "n".into(),
            V::Int(i) | V::IntBig(i) => format!("i{};", i),
            V::Float(f) => format!("f{:016x};", f.to_bits()),
            V::Str(s) => format!("s{};", hex(s.as_bytes())),
            V::Bytes(b) => format!("y{};", hex(b)),
            V::List(xs) => format!("l{};{}", xs.len(), xs.iter().map(|x| x.token()).collect::<String>()),
            V::Dict(kvs) => format!(
                "d{};{}",
                kvs.len(),
                kvs.iter().map(|(k, v)| format!("{};{}", hex(k.as_bytes()), v.token())).collect::<String>()
            ),
            V::Func => "x".into(),
        }
    }
    /// like `token`, but keeps the representation of integers (`I` = held in Big); used in replay lines
    fn token_bind(&self) -> String {
        match self {
            V::IntBig(i) => format!("I{};", i),
            V::List(xs) => format!("l{};{}", xs.len(), xs.iter().map(|x| x.token_bind()).collect::<String>()),
            V::Dict(kvs) => format!(
                "d{};{}",
                kvs.len(),
                kvs.iter().map(|(k, v)| format!("{};{}", hex(k.as_bytes()), v.token_bind())).collect::<String>()
            ),
            v => v.token(),
        }
    }
    fn parse(t: &[u8], pos: &mut usize) -> Option<V> {
        fn field(t: &[u8], pos: &mut usize) -> Option<String> {
            let start = *pos;
            while *pos < t.len() && t[*pos] != b';' {
                *pos += 1;
            }
            if *pos >= t.len() {
                return None;
            }
            let s = String::from_utf8_lossy(&t[start..*pos]).to_string();
            *pos += 1;
            Some(s)
        }
        let c = *t.get(*pos)?;
        *pos += 1;
        Some(match c {
            b'n' => V::Null,
            b'x' => V::Func,
            b'i' => V::Int(field(t, pos)?.parse().ok()?),
            b'I' => V::IntBig(field(t, pos)?.parse().ok()?),
            b'f' => V::Float(f64::from_bits(u64::from_str_radix(&field(t, pos)?, 16).ok()?)),
            b's' => V::Str(String::from_utf8(unhex(&field(t, pos)?)).ok()?),
            b'y' => V::Bytes(unhex(&field(t, pos)?)),
            b'l' => {
                let k: usize = field(t, pos)?.parse().ok()?;
                let mut xs = vec![];
                for _ in 0..k {
                    xs.push(V::parse(t, pos)?);
                }
                V::List(xs)
            }
            b'd' => {
                let k: usize = field(t, pos)?.parse().ok()?;
                let mut xs = vec![];
                for _ in 0..k {
                    let key = String::from_utf8(unhex(&field(t, pos)?)).ok()?;
                    xs.push((key, V::parse(t, pos)?));
                }
                V::Dict(xs)
            }
            _ => return None,
        })
    }
    /// text that is both JSON and a Noulith literal (for JSON-shaped values with printable strings)
    fn literal(&self) -> String {
        match self {
            V::Null => "null".into(),
            V::Int(i) | V::IntBig(i) => format!("{}", i),
            V::Float(f) => format!("{:?}", f),
            V::Str(s) => format!("\"{}\"", s.replace('\\', "\\\\").replace('"', "\\\"")),
            V::List(xs) => format!("[{}]", xs.iter().map(|x| x.literal()).collect::<Vec<_>>().join(", ")),
            V::Dict(kvs) => format!(
                "{{{}}}",
                kvs.iter()
                    .map(|(k, v)| format!("{}: {}", V::Str(k.clone()).literal(), v.literal()))
                    .collect::<Vec<_>>()
                    .join(", ")
            ),
            _ => "null".into(),
        }
    }
}

/// canonical text of a serde_json value, in the syntax of the driver's `renderJV`
fn canon_json(v: &serde_json::Value) -> String {
    use serde_json::Value as J;
    match v {
        J::Null => "null".into(),
        J::Bool(b) => if *b { "true".into() } else { "false".into() },
        J::Number(n) => {
            if let Some(u) = n.as_u64() {
                format!("P{}", u)
            } else if let Some(i) = n.as_i64() {
                format!("N{}", i)
            } else {
                format!("F{}", canon_f64(n.as_f64().unwrap_or(f64::NAN)))
            }
        }
        J::String(s) => format!("s:{}", hex(s.as_bytes())),
        J::Array(a) => format!("[{}]", a.iter().map(canon_json).collect::<Vec<_>>().join(",")),
        J::Object(o) => {
            let mut items: Vec<(String, String)> =
                o.iter().map(|(k, v)| (format!("s:{}", hex(k.as_bytes())), canon_json(v))).collect();
            items.sort();
            format!("{{{}}}", items.iter().map(|(k, v)| format!("{}:{}", k, v)).collect::<Vec<_>>().join(","))
        }
    }
}
/// token of a serde_json value in the driver's `parseJV` syntax
fn json_token(v: &serde_json::Value) -> String {
    use serde_json::Value as J;
    match v {
        J::Null => "n".into(),
        J::Bool(b) => if *b { "t".into() } else { "u".into() },
        J::Number(n) => {
            if let Some(u) = n.as_u64() {
                format!("P{};", u)
            } else if let Some(i) = n.as_i64() {
                format!("N{};", i)
            } else {
                format!("F{:016x};", n.as_f64().unwrap_or(f64::NAN).to_bits())
            }
        }
        J::String(s) => format!("s{};", hex(s.as_bytes())),
        J::Array(a) => format!("a{};{}", a.len(), a.iter().map(json_token).collect::<String>()),
        J::Object(o) => format!(
            "o{};{}",
            o.len(),
            o.iter().map(|(k, v)| format!("{};{}", hex(k.as_bytes()), json_token(v))).collect::<String>()
        ),
    }
}

/// replace the model's placeholders `fi:<int>` ("the f64 nearest to this integer") by the bits Rust's
/// own conversion gives
fn resolve_fi(s: &str) -> String {
    let b = s.as_bytes();
    let mut out = String::new();
    let mut i = 0;
    while i < b.len() {
        if b[i..].starts_with(b"fi:") {
            let mut j = i + 3;
            if j < b.len() && b[j] == b'-' {
                j += 1;
            }
            while j < b.len() && b[j].is_ascii_digit() {
                j += 1;
            }
            let v: BigInt = s[i + 3..j].parse().unwrap_or_else(|_| BigInt::zero());
            out.push_str(&canon_f64(v.to_f64().unwrap_or(f64::NAN)));
            i = j;
        } else {
            out.push(b[i] as char);
            i += 1;
        }
    }
    out
}

// ---------------------------------------------------------------------------------------------
// cases
#[derive(Clone, Debug)]
enum Bind {
    Str(String),
    Bytes(Vec<u8>),
    Val(V),
    /// a large byte string described by (kind, length, seed) so that replay lines stay short
    Gen(u8, usize, u64),
}

/// kind 0: pseudo-random bytes (incompressible); 1: pseudo-random over a 16-symbol alphabet;
/// 2: repetitive first half + random tail; 3: random head + repetitive tail; 4: all the same byte
fn gen_bytes(kind: u8, len: usize, seed: u64) -> Vec<u8> {
    let mut r = Rng::new(seed);
    let mut out = Vec::with_capacity(len);
    let mut word = 0u64;
    for i in 0..len {
        if i % 8 == 0 {
            word = r.next();
        }
        let rb = (word >> ((i % 8) * 8)) as u8;
        let rep = b"abcabcabd0123456"[i % 16];
        out.push(match kind {
            0 => rb,
            1 => b"0123456789abcdef"[(rb & 15) as usize],
            2 => if i < len / 2 { rep } else { rb },
            3 => if i < len / 2 { rb } else { rep },
            _ => 0x41,
        });
    }
    out
}
impl Bind {
    fn encode(&self) -> String {
        match self {
            Bind::Str(s) => format!("str:{}", if s.is_empty() { "-".into() } else { hex(s.as_bytes()) }),
            Bind::Bytes(b) => format!("bytes:{}", if b.is_empty() { "-".into() } else { hex(b) }),
            Bind::Val(v) => format!("val:{}", v.token_bind()),
            Bind::Gen(k, n, sd) => format!("gen:{}_{}_{}", k, n, sd),
        }
    }
    fn decode(t: &str) -> Option<Bind> {
        let (k, rest) = t.split_once(':')?;
        let h = if rest == "-" { "" } else { rest };
        Some(match k {
            "str" => Bind::Str(String::from_utf8(unhex(h)).ok()?),
            "bytes" => Bind::Bytes(unhex(h)),
            "val" => {
                let mut pos = 0;
                Bind::Val(V::parse(rest.as_bytes(), &mut pos)?)
            }
            "gen" => {
                let p: Vec<&str> = rest.split('_').collect();
                Bind::Gen(p.first()?.parse().ok()?, p.get(1)?.parse().ok()?, p.get(2)?.parse().ok()?)
            }
            _ => return None,
        })
    }
    fn to_obj(&self, it: &Interp) -> Obj {
        match self {
            Bind::Str(s) => Obj::from(s.clone()),
            Bind::Bytes(b) => Obj::Seq(Seq::Bytes(Rc::new(b.clone()))),
            Bind::Val(v) => v.to_obj(it),
            Bind::Gen(k, n, sd) => Obj::Seq(Seq::Bytes(Rc::new(gen_bytes(*k, *n, *sd)))),
        }
    }
}

#[derive(Clone, Copy, Debug, PartialEq)]
enum Render {
    /// canonical value
    Canon,
    /// a string result as its code points `u:65,66`
    Cps,
    /// a string result holding JSON text: canonical serde_json value
    JsonText,
    /// captured output of `print` (without the final newline), as a string
    Output,
}
impl Render {
    fn name(&self) -> &'static str {
        match self {
            Render::Canon => "canon",
            Render::Cps => "cps",
            Render::JsonText => "jsontext",
            Render::Output => "output",
        }
    }
    fn parse(s: &str) -> Render {
        match s {
            "cps" => Render::Cps,
            "jsontext" => Render::JsonText,
            "output" => Render::Output,
            _ => Render::Canon,
        }
    }
}

struct Case {
    key: String,
    /// source text; `$1`, `$2` stand for the bound variables
    src: String,
    binds: Vec<Bind>,
    render: Render,
    request: String,
    nontrivial: bool,
    /// for `number(s)`: what Rust's own f64 parser says about the string (used when the model defers)
    f64_of: Option<String>,
}

fn cps_of(s: &str) -> String {
    format!("u:{}", s.chars().map(|c| (c as u32).to_string()).collect::<Vec<_>>().join(","))
}

struct Runner {
    it: Interp,
    counter: u64,
    used: u64,
}
impl Runner {
    fn new() -> Runner {
        Runner { it: Interp::new(), counter: 0, used: 0 }
    }
    fn run(&mut self, src: &str, binds: &[Bind], render: Render) -> String {
        if self.used > 3000 {
            self.it = Interp::new();
            self.used = 0;
        }
        self.used += 1;
        let mut text = src.to_string();
        for (i, b) in binds.iter().enumerate().rev() {
            self.counter += 1;
            let name = format!("zq{}", self.counter);
            let obj = b.to_obj(&self.it);
            let _ = self.it.env.borrow_mut().insert(name.clone(), ObjType::Any, obj);
            text = text.replace(&format!("${}", i + 1), &name);
        }
        match render {
            Render::Canon => self.it.eval(&text).class(),
            Render::Output => {
                self.it.take_output();
                let o = self.it.eval(&text);
                let out = self.it.take_output();
                match o {
                    Outcome::Ok(_) => format!("ok s:{}", hex(out.strip_suffix('\n').unwrap_or(&out).as_bytes())),
                    o => o.class(),
                }
            }
            Render::Cps | Render::JsonText => match self.it.eval_obj(&text) {
                Ok(Obj::Seq(Seq::String(s))) => {
                    if render == Render::Cps {
                        format!("ok {}", cps_of(&s))
                    } else {
                        match serde_json::from_str::<serde_json::Value>(&s) {
                            Ok(v) => format!("ok {}", canon_json(&v)),
                            Err(e) => format!("ok not-json:{}:{}", e, hex(s.as_bytes())),
                        }
                    }
                }
                Ok(o) => format!("ok {}", canon(&o)),
                Err(e) => e.class(),
            },
        }
    }
}

// ---------------------------------------------------------------------------------------------
// generators
fn lit(v: &BigInt) -> String {
    if v.is_negative() {
        let m = -v;
        if m == BigInt::from(9223372036854775808u64) {
            "(0-9223372036854775807-1)".to_string()
        } else {
            format!("(0-{})", m)
        }
    } else {
        format!("{}", v)
    }
}
/// an expression with value v; how = 0 literal (Small when it fits), 1.. force the Big representation
fn produce(v: &BigInt, how: u64) -> (String, &'static str) {
    let fits = v.to_i64().is_some();
    match how {
        0 => (lit(v), if fits { "s" } else { "b" }),
        1 => (format!("({}^1)", lit(v)), "b"),
        2 => (format!("(2^70+{}-2^70)", lit(v)), "b"),
        // unary minus of the opposite value (`Neg for NInt` normalises: Small when the result fits)
        _ => (format!("(-({}))", lit(&-v)), if fits { "s" } else { "b" }),
    }
}

fn special_ints() -> Vec<BigInt> {
    let mut v: Vec<BigInt> = vec![];
    let two = BigInt::from(2);
    for base in [0u32, 1, 4, 8, 15, 16, 31, 32, 53, 62, 63, 64, 65, 100, 128] {
        let p = if base == 0 { BigInt::from(0) } else { num::pow(two.clone(), base as usize) };
        for d in -2i64..=2 {
            v.push(&p + d);
            v.push(-(&p) + d);
        }
    }
    for k in [7i64, 9, 10, 35, 36, 37, 99, 100, 255, 256, 1000, 1295, 1296, 65535, 1114111, 1114112] {
        v.push(BigInt::from(k));
        v.push(BigInt::from(-k));
    }
    let ten = BigInt::from(10);
    for e in [18usize, 19, 20, 30] {
        v.push(num::pow(ten.clone(), e));
        v.push(-num::pow(ten.clone(), e) + 1);
    }
    v.sort();
    v.dedup();
    v
}

fn random_int(rng: &mut Rng, max_bits: u64) -> BigInt {
    let bits = match rng.below(7) {
        0 => rng.below(8),
        1 => rng.below(40),
        2 => 55 + rng.below(20),
        3 => rng.below(200),
        4 => 60 + rng.below(8),
        _ => rng.below(max_bits),
    };
    let mut x = BigInt::from(0);
    let mut got = 0;
    while got < bits {
        let take = std::cmp::min(60, bits - got);
        x = (x << (take as usize)) + BigInt::from(rng.below(1u64 << take));
        got += take;
    }
    if rng.chance(1, 2) {
        -x
    } else {
        x
    }
}

fn digits(rng: &mut Rng, lo: u64, hi: u64) -> String {
    let n = lo + rng.below(hi - lo + 1);
    (0..n)
        .map(|i| {
            if i == 0 && rng.chance(1, 4) {
                '0'
            } else {
                (b'0' + rng.below(10) as u8) as char
            }
        })
        .collect()
}
fn sign(rng: &mut Rng) -> (&'static str, &'static str) {
    match rng.below(5) {
        0 | 1 => ("", "n"),
        2 => ("+", "p"),
        _ => ("-", "m"),
    }
}

/// a decimal literal of the grammar: (text, token of the driver's `parseDec`)
fn gen_dec(rng: &mut Rng) -> (String, String) {
    let (st, sk) = sign(rng);
    let shape = rng.below(10);
    // ip / fp
    let (ip, fp): (String, Option<String>) = match shape {
        0 | 1 | 2 => (digits(rng, 1, 12), None),
        3 => (digits(rng, 1, 25), None),
        4 => (String::new(), Some(digits(rng, 1, 12))),
        5 => (digits(rng, 1, 12), Some(String::new())),
        6 => ("0".into(), Some(digits(rng, 1, 12))),
        _ => (digits(rng, 1, 14), Some(digits(rng, 1, 25))),
    };
    let exp: Option<(char, &str, &str, String)> = if rng.chance(2, 5) {
        let e = if rng.chance(1, 3) { 'E' } else { 'e' };
        let (est, esk) = sign(rng);
        let mag = match rng.below(5) {
            0 => rng.below(4),
            1 => rng.below(30),
            2 => rng.below(400),
            _ => rng.below(12),
        };
        let mut ds = format!("{}", mag);
        if rng.chance(1, 6) {
            ds = format!("00{}", ds);
        }
        Some((e, est, esk, ds))
    } else {
        None
    };
    let mut text = format!("{}{}", st, ip);
    if let Some(f) = &fp {
        text.push('.');
        text.push_str(f);
    }
    if let Some((e, est, _, ds)) = &exp {
        text.push(*e);
        text.push_str(est);
        text.push_str(ds);
    }
    let tok = format!(
        "{}:{}:{}:{}",
        sk,
        ip,
        match &fp {
            None => "-".to_string(),
            Some(f) => f.clone(),
        },
        match &exp {
            None => "-".to_string(),
            Some((e, _, esk, ds)) => format!("{}{}{}", e, esk, ds),
        }
    );
    (text, tok)
}

const BAD_NUMBER_STRINGS: &[&str] = &[
    "", " ", "-", "+", ".", "-.", "+.", "e5", "E5", "1e", "1e+", "1e-", "1.5.5", "1/2/3", "1/", "/2", "/", "--1",
    "++1", "+-1", "-+1", "1.-5", "1.+5", "1._5", "1_0.5", "_1.5", "1_", "_1", "1__0", "1e1_0", "1e5.5", "1/0",
    "1/0.0", "1/0e5", "1/-0", "0/0", "0x10", "0b1", "1,5", "١.٥", "٣", "1e99999999999", "1e-99999999999",
    "1.5e-2147483648", "1.25e-2147483647", "1e2147483648", "1e-2147483649", "1 e5", "1e 5", "- 1", "1 .5", "1. 5", "inf", "nan",
    "NaN", "infinity", "-inf", "1f", "1.5f", "1q", "1e5e5", "1/2e", ".e5", "-.e5", "1 / 2", " 1/2 ", "1/ 2", "1 /2",
    "\t1.5\n", "\u{a0}1.5", "1.5\u{3000}", "\u{2003}-2/3\u{2003}", "1.5 x", "x1.5", "-1_0", "+1_0", "1_0/2_0",
    "-0", "+0", "-0.0", "-0/5", "0.0e0", "-.5", "+.5", "-.5e1", "+5.", "-5.", "5./.5", "1e0/1e0", "0e5", "0e-5",
    "00", "007", "-007", "1e007", "1e+007", "1e-007", "٠", "1\u{0}", "\u{0}", "１２", "1e٣", "9223372036854775808",
    "-9223372036854775809", "1e400", "1e-400", "123456789012345678901234567890.123456789012345678901234567890",
];

fn mutate(rng: &mut Rng, s: &str) -> String {
    let mut cs: Vec<char> = s.chars().collect();
    let junk = ['+', '-', '.', '_', ' ', 'x', '/', '\t', '٣', '=', '\u{a0}', '0'];
    let n = 1 + rng.below(2);
    for _ in 0..n {
        match rng.below(4) {
            0 if !cs.is_empty() => {
                let i = rng.below(cs.len() as u64) as usize;
                // never delete a separator whose removal could glue digits onto an exponent
                if cs[i] != '/' && cs[i] != ' ' && cs[i] != '-' && cs[i] != '+' {
                    cs.remove(i);
                }
            }
            1 => {
                let i = rng.below(cs.len() as u64 + 1) as usize;
                cs.insert(i, *rng.pick(&junk[..junk.len() - 1]));
            }
            2 if !cs.is_empty() => {
                let i = rng.below(cs.len() as u64) as usize;
                if cs[i] != '/' && cs[i] != ' ' && cs[i] != '-' && cs[i] != '+' {
                    cs[i] = *rng.pick(&junk[..junk.len() - 1]);
                }
            }
            _ => {
                if rng.chance(1, 2) {
                    cs.insert(0, *rng.pick(&[' ', '\t', '\n', '\u{a0}', '\u{3000}', '+', '-']));
                } else {
                    cs.push(*rng.pick(&[' ', '\t', '\n', '\u{a0}', '\u{3000}', '_', '.']));
                }
            }
        }
    }
    cs.into_iter().collect()
}

fn random_bytes(rng: &mut Rng, max: u64) -> Vec<u8> {
    let n = match rng.below(6) {
        0 => rng.below(4),
        1 => rng.below(10),
        2 => rng.below(40),
        3 => 3 * rng.below(12),
        _ => rng.below(max + 1),
    };
    let mode = rng.below(4);
    (0..n)
        .map(|_| match mode {
            0 => rng.below(256) as u8,
            1 => *rng.pick(&[0u8, 1, 0x7f, 0x80, 0xff, 0xfe, 0x3f, 0x40, 0xfb, 0xef]),
            2 => b'a' + rng.below(26) as u8,
            _ => rng.below(256) as u8,
        })
        .collect()
}

const BOUNDARY_SCALARS: &[u32] = &[
    0, 1, 0x7f, 0x80, 0xff, 0x7ff, 0x800, 0xfff, 0x1000, 0xd7ff, 0xe000, 0xfffd, 0xffff, 0x10000, 0x10001, 0x3ffff, 0x40000,
    0xfffff, 0x100000, 0x10ffff, 0x41, 0x30, 0x39, 0xe9, 0x20ac, 0x1f600,
];
fn random_scalar(rng: &mut Rng) -> char {
    let c = match rng.below(7) {
        0 => *rng.pick(BOUNDARY_SCALARS),
        1 => rng.below(0x80) as u32,
        2 => 0x80 + rng.below(0x780) as u32,
        3 => 0x800 + rng.below(0xf800) as u32,
        4 => 0x10000 + rng.below(0x100000) as u32,
        5 => 0x20 + rng.below(0x5f) as u32,
        _ => rng.below(0x110000) as u32,
    };
    char::from_u32(c).unwrap_or('\u{fffd}')
}
fn random_string(rng: &mut Rng, max: u64) -> String {
    let n = match rng.below(4) {
        0 => rng.below(3),
        1 => rng.below(8),
        _ => rng.below(max + 1),
    };
    (0..n).map(|_| random_scalar(rng)).collect()
}
fn printable_string(rng: &mut Rng) -> String {
    let n = rng.below(8);
    (0..n)
        .map(|_| match rng.below(8) {
            0 => *rng.pick(&['é', 'ß', 'λ', '€', '日', '😀', 'Ω']),
            1 => *rng.pick(&['"', '\\', '\'', ' ', '{', '}', '#', '$']),
            _ => (0x20 + rng.below(0x5f) as u8) as char,
        })
        .collect()
}

fn random_f64(rng: &mut Rng, finite_only: bool) -> f64 {
    loop {
        let f = match rng.below(8) {
            0 => rng.range(-1000, 1000) as f64,
            1 => rng.range(-1000, 1000) as f64 / 8.0,
            2 => rng.range(-100000, 100000) as f64 / 1000.0,
            3 => *rng.pick(&[0.0, -0.0, 1.0, -1.0, 0.1, 1e21, 1e-7, 1e300, -1e300, 5e-324, 1.7976931348623157e308, 9007199254740993.0, 1e16, 123456789012345680000.0, 0.5, 1e22, 1e15]),
            4 => f64::from_bits(rng.next()),
            5 => (rng.next() >> 11) as f64,
            6 => *rng.pick(&[f64::NAN, f64::INFINITY, f64::NEG_INFINITY]),
            _ => (rng.range(-9, 9) as f64) * 10f64.powi(rng.range(-30, 30) as i32),
        };
        if !finite_only || f.is_finite() {
            return f;
        }
    }
}

/// a random value; `json_shaped`: only null / i64 / finite floats / strings / lists / string-keyed dicts
fn random_val(rng: &mut Rng, depth: u32, json_shaped: bool, printable: bool) -> V {
    let top = if depth == 0 { 5 } else { 8 };
    match rng.below(top) {
        0 => V::Null,
        1 | 2 => {
            let big = rng.chance(1, 2);
            let wrap = |i: BigInt| if big && i.to_i64().is_some() { V::IntBig(i) } else { V::Int(i) };
            if json_shaped {
                wrap(match rng.below(6) {
                    0 => BigInt::from(*rng.pick(&[0i64, 1, -1, 1024, i64::MAX, i64::MIN, i64::MAX - 1, i64::MIN + 1, 1 << 53, (1 << 53) + 1, -(1 << 53) - 1, 4052555153018976267])),
                    1 => BigInt::from(rng.range(-100, 100)),
                    2 | 3 => {
                        // magnitudes between 2^53 and 2^63: not representable as f64
                        let m = (1i64 << 53) + (rng.next() >> 11) as i64 * 1023 + rng.range(0, 1022);
                        BigInt::from(if rng.chance(1, 2) { -m } else { m })
                    }
                    _ => BigInt::from(rng.next() as i64),
                })
            } else {
                match rng.below(6) {
                    0 => V::Int(random_int(rng, 1100)),
                    1 => V::Bytes(random_bytes(rng, 6)),
                    2 => V::Func,
                    3 => V::Float(random_f64(rng, false)),
                    4 => wrap(BigInt::from(*rng.pick(&[i64::MAX, i64::MIN])) + rng.range(-2, 2)),
                    _ => wrap(BigInt::from(rng.next() as i64)),
                }
            }
        }
        3 => V::Float(random_f64(rng, json_shaped)),
        4 => V::Str(if printable { printable_string(rng) } else { random_string(rng, 6) }),
        5 | 6 => {
            let n = rng.below(4);
            V::List((0..n).map(|_| random_val(rng, depth - 1, json_shaped, printable)).collect())
        }
        _ => {
            let n = rng.below(4);
            let mut kvs: Vec<(String, V)> = vec![];
            for _ in 0..n {
                let k = if printable { printable_string(rng) } else { random_string(rng, 4) };
                if kvs.iter().any(|(kk, _)| *kk == k) {
                    continue;
                }
                kvs.push((k, random_val(rng, depth - 1, json_shaped, printable)));
            }
            V::Dict(kvs)
        }
    }
}

fn random_json(rng: &mut Rng, depth: u32) -> serde_json::Value {
    use serde_json::Value as J;
    let top = if depth == 0 { 6 } else { 9 };
    match rng.below(top) {
        0 => J::Null,
        1 => J::Bool(rng.chance(1, 2)),
        2 => J::from(rng.next() as i64),
        3 => J::from(match rng.below(3) {
            0 => rng.next(),
            1 => *rng.pick(&[i64::MAX as u64, i64::MAX as u64 + 1, u64::MAX, 0, 1 << 53]),
            _ => rng.below(1000),
        }),
        4 => J::from(random_f64(rng, true)),
        5 => J::String(random_string(rng, 6)),
        6 | 7 => J::Array((0..rng.below(4)).map(|_| random_json(rng, depth - 1)).collect()),
        _ => {
            let mut m = serde_json::Map::new();
            for _ in 0..rng.below(4) {
                m.insert(random_string(rng, 4), random_json(rng, depth - 1));
            }
            J::Object(m)
        }
    }
}


// ---------------------------------------------------------------------------------------------
// JSON text layer: the float text functions are external to the model; the harness supplies them
// as a table computed with Rust's own conversions
fn f64_json_text(f: f64) -> String {
    serde_json::to_string(&serde_json::Value::from(f)).unwrap_or_default()
}
/// writer entries for every float the model may have to write for `v`
fn fmt_entries(v: &V, out: &mut Vec<String>) {
    match v {
        V::Float(f) if f.is_finite() => out.push(format!("b{:016x}={}", f.to_bits(), hex(f64_json_text(*f).as_bytes()))),
        V::Int(i) | V::IntBig(i) if i.to_i64().is_none() => {
            let f = i.to_f64().unwrap_or(f64::NAN);
            if f.is_finite() {
                out.push(format!("i{}={}", i, hex(f64_json_text(f).as_bytes())));
            }
        }
        V::List(xs) => xs.iter().for_each(|x| fmt_entries(x, out)),
        V::Dict(kvs) => kvs.iter().for_each(|(_, x)| fmt_entries(x, out)),
        _ => {}
    }
}
/// parser entries: every maximal run of number characters outside strings, and each of its
/// prefixes, with the f64 Rust's correctly rounded parser gives (omitted when not finite)
fn parse_entries(text: &str, out: &mut Vec<String>) {
    let cs: Vec<char> = text.chars().collect();
    let mut i = 0;
    let mut in_str = false;
    while i < cs.len() {
        let c = cs[i];
        if in_str {
            if c == '\\' {
                i += 2;
                continue;
            }
            if c == '"' {
                in_str = false;
            }
            i += 1;
            continue;
        }
        if c == '"' {
            in_str = true;
            i += 1;
            continue;
        }
        if c == '-' || c.is_ascii_digit() {
            let mut j = i;
            while j < cs.len() && (cs[j].is_ascii_digit() || "+-.eE".contains(cs[j])) && j - i < 400 {
                j += 1;
            }
            for k in i + 1..=j {
                let tok: String = cs[i..k].iter().collect();
                if let Ok(f) = tok.parse::<f64>() {
                    if f.is_finite() && out.len() < 400 {
                        out.push(format!("t{}={:016x}", hex(tok.as_bytes()), f.to_bits()));
                    }
                }
            }
            i = j.max(i + 1);
            continue;
        }
        i += 1;
    }
}
/// the texts the writer produces for the floats of `v` (the parser will meet them again)
fn fmt_entries_texts(v: &V, out: &mut Vec<String>) {
    match v {
        V::Float(f) if f.is_finite() => out.push(f64_json_text(*f)),
        V::Int(i) | V::IntBig(i) if i.to_i64().is_none() => {
            let f = i.to_f64().unwrap_or(f64::NAN);
            if f.is_finite() {
                out.push(f64_json_text(f));
            }
        }
        V::List(xs) => xs.iter().for_each(|x| fmt_entries_texts(x, out)),
        V::Dict(kvs) => kvs.iter().for_each(|(_, x)| fmt_entries_texts(x, out)),
        _ => {}
    }
}
fn table(mut e: Vec<String>) -> String {
    e.sort();
    e.dedup();
    if e.is_empty() { "-".into() } else { e.join(",") }
}
fn depth_of(v: &V) -> usize {
    match v {
        V::List(xs) => 1 + xs.iter().map(depth_of).max().unwrap_or(0),
        V::Dict(kvs) => 1 + kvs.iter().map(|(_, x)| depth_of(x)).max().unwrap_or(0),
        _ => 0,
    }
}
/// a string exercising the writer's escape table
fn escapy_string(rng: &mut Rng) -> String {
    let n = rng.below(10);
    (0..n)
        .map(|_| match rng.below(6) {
            0 => char::from_u32(rng.below(0x20) as u32).unwrap(),
            1 => *rng.pick(&['"', '\\', '/', '\u{7f}', '\u{8}', '\u{c}', '\n', '\r', '\t', '\u{0}', '\u{1f}', ' ', 'u']),
            2 => *rng.pick(&['\u{80}', '\u{d7ff}', '\u{e000}', '\u{ffff}', '\u{10000}', '\u{10ffff}', 'é', '€', '😀', '\u{2028}', '\u{feff}']),
            _ => (0x20 + rng.below(0x5f) as u8) as char,
        })
        .collect()
}
fn escapy_val(rng: &mut Rng, depth: u32) -> V {
    let top = if depth == 0 { 4 } else { 7 };
    match rng.below(top) {
        0 => V::Str(escapy_string(rng)),
        1 => random_val(rng, 0, true, false),
        2 => V::Str(random_string(rng, 8)),
        3 => V::Float(random_f64(rng, true)),
        4 | 5 => V::List((0..rng.below(4)).map(|_| escapy_val(rng, depth - 1)).collect()),
        _ => {
            let mut kvs: Vec<(String, V)> = vec![];
            for _ in 0..rng.below(5) {
                let k = if rng.chance(1, 2) { escapy_string(rng) } else { random_string(rng, 3) };
                if kvs.iter().any(|(kk, _)| *kk == k) {
                    continue;
                }
                kvs.push((k, escapy_val(rng, depth - 1)));
            }
            V::Dict(kvs)
        }
    }
}
fn nest(leaf: V, depth: u64, dicts: bool, rng: &mut Rng) -> V {
    let mut v = leaf;
    for _ in 0..depth {
        v = if dicts && rng.chance(1, 2) { V::Dict(vec![("k".into(), v)]) } else { V::List(vec![v]) };
    }
    v
}

const JSON_TEXTS: &[&str] = &[
    "\"\\ud83d\\ude00\"", "\"\\uD83D\\uDE00 \\u00e9\\u00E9 \\/ \\b\\f\\n\\r\\t\\\"\\\\\"", "\"\\ud83d\"", "\"\\ud83d x\"", "\"\\ud83d\\n\"",
    "\"\\ud83d\\u0041\"", "\"\\ude00\"", "\"\\udc00\\ud800\"", "\"\\ud800\\udbff\"", "\"\\udbff\\udfff\"", "\"\\ud800\\udc00\"", "\"\\ud7ff\\ue000\"",
    "\"\\u12\"", "\"\\u12g4\"", "\"\\x41\"", "\"\\'\"", "\"\\a\"", "\"\\", "\"abc", "\"a\nb\"", "\"a\tb\"", "\"\u{0}\"", "\"\u{1f}\"", "\"\u{7f}\"", "\"\u{2028}\"",
    "-0", "-0.0", "0", "00", "01", "-01", "1.", ".5", "1.5", "-1.5e3", "1E+5", "1e-5", "1e", "1e+", "-", "--1", "+1", "0x10", "1_0", "1e400", "-1e400", "1e-400",
    "18446744073709551615", "18446744073709551616", "9223372036854775807", "9223372036854775808", "-9223372036854775808", "-9223372036854775809",
    "123456789012345678901234567890", "-123456789012345678901234567890", "0.1e1", "0e0", "-0e-0", "1.0", "100000000000000000000.0", "0.30000000000000004",
    "4.9e-324", "1.7976931348623157e308", "1.7976931348623159e308", "2.2250738585072014e-308",
    " 1", "1 ", "\t\n\r 1 \r\n\t", "\u{feff}1", "1\u{a0}", "\u{c}1", "1 2", "1,", "[1]]", "[1] x",
    "[]", "[ ]", "[\n]", "{}", "{ }", "[1,]", "[,1]", "[1,,2]", "[1 2]", "[", "]", "{", "}", "[}", "{]", "[1", "{\"a\"", "{\"a\":", "{\"a\":1", "{\"a\":1,", "{\"a\":1,}", "{,}",
    "{\"a\" 1}", "{\"a\":1 \"b\":2}", "{a:1}", "{1:2}", "{null:1}", "{\"a\":1,\"a\":2}", "{\"b\":1,\"a\":2,\"b\":3,\"\":[]}", "{\"a\":{\"a\":{\"b\":1,\"a\":2}}}",
    "{ \"k\" : [ 1 , 2 ] , \"j\" : { } }", "[1 ,2]", "[1, 2 ]", "null", "nul", "nulll", "true", "tru", "false", "fals", "falsey", "n", "t", "f", "NULL", "True", "None", "NaN", "Infinity", "-Infinity",
    "", " ", "\"\"", "[\"\"]", "{\"\":\"\"}", "[[[[[[[[[[[[]]]]]]]]]]]]", "[null,true,false,0,\"\",[],{}]", "'a'", "\"é😀\u{10ffff}\"", "[\"a\"\"b\"]", "\"a\"\"b\"", "[\"\\u0000\\u001f\"]",
];

fn hx(b: &[u8]) -> String {
    if b.is_empty() {
        "-".into()
    } else {
        hex(b)
    }
}
fn cps_token(s: &str) -> String {
    if s.is_empty() {
        "-".into()
    } else {
        s.chars().map(|c| (c as u32).to_string()).collect::<Vec<_>>().join(",")
    }
}

fn case(key: &str, src: String, binds: Vec<Bind>, render: Render, request: String, nontrivial: bool) -> Case {
    Case { key: key.to_string(), src, binds, render, request, nontrivial, f64_of: None }
}

fn f64_class(s: &str) -> String {
    match s.parse::<f64>() {
        Ok(x) => format!("ok {}", canon_f64(x)),
        Err(_) => "throw".into(),
    }
}

/// the same format string evaluated lexically inside `freeze`: (1) `freeze F"…"` with the values
/// bound to variables outside, (2) `(freeze \a, b -> F"…")(a, b)`; `exprs` are the interpolated
/// expressions of `c.src` in order
fn freeze_variants(c: &Case, exprs: &[String]) -> Vec<Case> {
    let mut body = String::new();
    let mut rest: &str = &c.src;
    let mut names = vec![];
    for (i, e) in exprs.iter().enumerate() {
        let pat = format!("{{{}", e);
        match rest.find(&pat) {
            Some(pos) => {
                let name = format!("qf{}", i);
                body.push_str(&rest[..pos]);
                body.push('{');
                body.push_str(&name);
                rest = &rest[pos + pat.len()..];
                names.push(name);
            }
            None => return vec![],
        }
    }
    body.push_str(rest);
    let decls: String = names.iter().zip(exprs).map(|(n, e)| format!("{} := {}; ", n, e)).collect();
    let top = format!("(\\ -> ({}freeze {}))()", decls, body);
    let lam = format!("(freeze \\{} -> {})({})", names.join(", "), body, exprs.join(", "));
    vec![
        case(&format!("{}/freeze-top", c.key), top, vec![], c.render, c.request.clone(), c.nontrivial),
        case(&format!("{}/freeze-lambda", c.key), lam, vec![], c.render, c.request.clone(), c.nontrivial),
    ]
}

struct Gen {
    extra: Vec<Case>,
    rng: Rng,
    specials: Vec<BigInt>,
    max_bits: u64,
    max_bytes: u64,
}
impl Gen {
    fn int(&mut self) -> BigInt {
        if self.rng.chance(2, 5) {
            self.rng.pick(&self.specials).clone()
        } else {
            random_int(&mut self.rng, self.max_bits)
        }
    }
    fn int_expr(&mut self, v: &BigInt) -> (String, &'static str) {
        let how = if self.rng.chance(1, 2) { 0 } else { 1 + self.rng.below(3) };
        produce(v, how)
    }
    /// an integer that fits an i64 (so that both representations can hold it), often negative
    fn small_int(&mut self) -> BigInt {
        match self.rng.below(4) {
            0 => BigInt::from(-(self.rng.below(70000) as i64)),
            1 => BigInt::from(*self.rng.pick(&[i64::MIN, i64::MIN + 1, -1, -2, -255, -256, i64::MAX, 0, 1, -4294967296, -2147483648])),
            2 => BigInt::from(self.rng.next() as i64),
            _ => BigInt::from(self.rng.range(-1000, 1000)),
        }
    }

    /// a format string with 2-4 interpolations, each with its own (possibly absent) flags
    fn gen_fmt_multi(&mut self) -> Case {
        let n = 2 + self.rng.below(3);
        let pre = *self.rng.pick(&["", "", ">", "a=", " ", "0x"]);
        let mut src = format!("F\"{}", pre);
        let mut slots = vec![];
        let mut flagged = 0;
        let mut exprs = vec![];
        for i in 0..n {
            let w = if self.rng.chance(2, 3) { self.small_int() } else { self.int() };
            let (e, r) = self.int_expr(&w);
            exprs.push(e.clone());
            let mut flags = String::new();
            let (mut base, mut alc, mut pad, mut len) = ("d", "r", 32, 0u64);
            // the first slot is mostly flagged, later ones are often bare: that is where a leak shows
            let with_flags = if i == 0 { self.rng.chance(4, 5) } else { self.rng.chance(1, 2) };
            if with_flags {
                flagged += 1;
                if self.rng.chance(1, 3) {
                    let (a, c) = *self.rng.pick(&[(">", "r"), ("<", "l"), ("^", "c")]);
                    flags.push_str(a);
                    alc = c;
                }
                if self.rng.chance(1, 2) {
                    flags.push('0');
                    pad = 48;
                }
                if self.rng.chance(1, 2) {
                    len = 1 + self.rng.below(14);
                    flags.push_str(&len.to_string());
                }
                if self.rng.chance(2, 3) || flags.is_empty() {
                    base = *self.rng.pick(&["x", "X", "b", "o", "d", "x"]);
                    flags.push_str(base);
                }
            }
            let sep = if i + 1 == n { *self.rng.pick(&["", "", ".", " end"]) } else { *self.rng.pick(&[" ", ":", ", ", "|", "-", "", " = ", "ff", "0", " 1 "]) };
            if flags.is_empty() {
                src.push_str(&format!("{{{}}}{}", e, sep));
            } else {
                src.push_str(&format!("{{{} #{}}}{}", e, flags, sep));
            }
            slots.push(format!("{},{},{},{},{}:{},{}", base, alc, pad, len, r, w, hx(sep.as_bytes())));
        }
        src.push('"');
        let c = case(&format!("fmt(multi,{}of{})", flagged, n), src, vec![], Render::Canon,
                     format!("fmtmulti {} {}", hx(pre.as_bytes()), slots.join(";")), true);
        self.extra.extend(freeze_variants(&c, &exprs));
        c
    }

    fn gen_show(&mut self) -> Case {
        let v = if self.rng.chance(1, 2) { self.small_int() } else { self.int() };
        let (e, rep) = self.int_expr(&v);
        let big = rep == "b" || v.bits() > 31;
        if self.rng.chance(1, 4) {
            // padded format string
            let base = *self.rng.pick(&["d", "x", "X", "b", "o"]);
            let (al, alc) = *self.rng.pick(&[("", "r"), (">", "r"), ("<", "l"), ("^", "c")]);
            let zero = self.rng.chance(1, 2);
            let lmax = if self.rng.chance(1, 5) { 90 } else { 24 };
            let len = 1 + self.rng.below(lmax);
            let src = format!("F\"{{{} #{}{}{}{}}}\"", e, al, if zero { "0" } else { "" }, len, base);
            let req = format!("fmt {} {} {} {} {}:{}", base, alc, if zero { 48 } else { 32 }, len, rep, v);
            let c = case(&format!("fmt({},{})", base, rep), src, vec![], Render::Canon, req, big);
            self.extra.extend(freeze_variants(&c, &[e.clone()]));
            return c;
        }
        if self.rng.chance(1, 10) {
            // a list of integers: elements are shown in repr form (decimal), whatever the flag
            let n = 1 + self.rng.below(4);
            let mut es = vec![];
            let mut toks = vec![];
            for _ in 0..n {
                let w = if self.rng.chance(1, 2) { self.small_int() } else { self.int() };
                let (e, r) = self.int_expr(&w);
                es.push(e);
                toks.push(format!("{}:{}", r, w));
            }
            let l = format!("[{}]", es.join(", "));
            let src = match self.rng.below(5) {
                0 => format!("str({})", l),
                1 => format!("$({})", l),
                2 => format!("repr({})", l),
                3 => format!("F\"{{{} #x}}\"", l),
                _ => format!("F\"{{{}}}\"", l),
            };
            let c = case("show(list)", src, vec![], Render::Canon, format!("showlist {}", toks.join(",")), true);
            if c.src.starts_with('F') {
                self.extra.extend(freeze_variants(&c, &[l.clone()]));
            }
            return c;
        }
        if self.rng.chance(1, 14) {
            // an integer inside a dict: `{"k": v}`, value in repr form
            let w = if self.rng.chance(1, 2) { self.small_int() } else { self.int() };
            let (e, r) = self.int_expr(&w);
            let d = format!("{{\"k\": {}}}", e);
            let src = match self.rng.below(4) {
                0 => format!("str({})", d),
                1 => format!("$({})", d),
                2 => format!("repr({})", d),
                _ => format!("F\"{{({{'k': {}}}) #x}}\"", e),
            };
            return case("show(dict)", src, vec![], Render::Canon, format!("showdict1 {}:{}", r, w), true);
        }
        if self.rng.chance(1, 5) {
            return self.gen_fmt_multi();
        }
        let kinds = ["str", "$", "fd", "x", "X", "b", "o", "print", "repr", "fD", "x", "b", "o"];
        let k = *self.rng.pick(&kinds);
        let (src, base, render) = match k {
            "str" => (format!("str({})", e), "d", Render::Canon),
            "$" => (format!("$({})", e), "d", Render::Canon),
            "fd" => (format!("F\"{{{}}}\"", e), "d", Render::Canon),
            "fD" => (format!("F\"{{{} #d}}\"", e), "d", Render::Canon),
            "print" => (format!("print({})", e), "d", Render::Output),
            "repr" => (format!("repr({})", e), "d", Render::Canon),
            b => (format!("F\"{{{} #{}}}\"", e, b), b, Render::Canon),
        };
        let c = case(&format!("show({},{})", k, rep), src, vec![], render, format!("show {} {}:{}", base, rep, v), big);
        if c.src.starts_with('F') {
            self.extra.extend(freeze_variants(&c, &[e.clone()]));
        }
        c
    }

    fn gen_intparse(&mut self) -> Case {
        let f = if self.rng.chance(1, 2) { "int" } else { "number" };
        match self.rng.below(10) {
            0..=4 => {
                let (st, sk) = sign(&mut self.rng);
                let ds = if self.rng.chance(1, 3) { digits(&mut self.rng, 1, 60) } else { digits(&mut self.rng, 1, 22) };
                let s = format!("{}{}", st, ds);
                let mut c = case(
                    &format!("{}(lit)", f),
                    format!("{}($1)", f),
                    vec![Bind::Str(s.clone())],
                    Render::Canon,
                    format!("{} {} {}:{}", f, hx(s.as_bytes()), sk, ds),
                    ds.len() > 9,
                );
                c.f64_of = Some(f64_class(&s));
                c
            }
            5 | 6 => {
                // round trip through the interpreter's own rendering
                let v = self.int();
                let (e, rep) = self.int_expr(&v);
                let via = *self.rng.pick(&["str", "$", "repr"]);
                let big = rep == "b" || v.bits() > 31;
                case(
                    &format!("{}({}(n))", f, via),
                    format!("{}({}({}))", f, via, e),
                    vec![],
                    Render::Canon,
                    format!("int_rt {}:{}", rep, v),
                    big,
                )
            }
            _ => {
                let s = if self.rng.chance(1, 2) {
                    self.rng.pick(BAD_NUMBER_STRINGS).to_string()
                } else {
                    let (st, _) = sign(&mut self.rng);
                    let base = format!("{}{}", st, digits(&mut self.rng, 1, 12));
                    mutate(&mut self.rng, &base)
                };
                let mut c = case(
                    &format!("{}(raw)", f),
                    format!("{}($1)", f),
                    vec![Bind::Str(s.clone())],
                    Render::Canon,
                    format!("{} {} -", f, hx(s.as_bytes())),
                    true,
                );
                c.f64_of = Some(f64_class(&s));
                c
            }
        }
    }

    fn gen_rational(&mut self) -> Case {
        match self.rng.below(10) {
            0..=4 => {
                let (t, tok) = gen_dec(&mut self.rng);
                case("rational(dec)", "rational($1)".into(), vec![Bind::Str(t.clone())], Render::Canon,
                     format!("rational {} {}", hx(t.as_bytes()), tok), true)
            }
            5 | 6 => {
                let (t1, k1) = gen_dec(&mut self.rng);
                let (t2, k2) = if self.rng.chance(1, 8) {
                    self.rng.pick(&[("0", "n:0:-:-"), ("-0.0", "m:0:0:-"), ("0e5", "n:0:-:en5"), (".0", "n::0:-")]).clone()
                        .pipe(|(a, b)| (a.to_string(), b.to_string()))
                } else {
                    gen_dec(&mut self.rng)
                };
                let t = format!("{}/{}", t1, t2);
                case("rational(frac)", "rational($1)".into(), vec![Bind::Str(t.clone())], Render::Canon,
                     format!("rational {} {}/{}", hx(t.as_bytes()), k1, k2), true)
            }
            7 => {
                // whitespace decorated (trim / trim around the slash): model only
                let (t1, _) = gen_dec(&mut self.rng);
                let ws = [" ", "  ", "\t", "\n", "\u{a0}", "\u{3000}", "\u{2009}", "\r\n", "\u{85}", "\u{1680}", "\u{200b}", "\u{feff}"];
                let mut t = format!("{}{}{}", self.rng.pick(&ws), t1, self.rng.pick(&ws));
                if self.rng.chance(1, 2) {
                    let (t2, _) = gen_dec(&mut self.rng);
                    t = format!("{}{}{}/{}{}{}", self.rng.pick(&ws), t1, self.rng.pick(&ws), self.rng.pick(&ws), t2, self.rng.pick(&ws));
                }
                case("rational(ws)", "rational($1)".into(), vec![Bind::Str(t.clone())], Render::Canon,
                     format!("rational {} -", hx(t.as_bytes())), true)
            }
            _ => {
                let s = if self.rng.chance(1, 2) {
                    self.rng.pick(BAD_NUMBER_STRINGS).to_string()
                } else {
                    let (t, _) = gen_dec(&mut self.rng);
                    let t = if self.rng.chance(1, 3) { format!("{}/{}", t, gen_dec(&mut self.rng).0) } else { t };
                    mutate(&mut self.rng, &t)
                };
                case("rational(raw)", "rational($1)".into(), vec![Bind::Str(s.clone())], Render::Canon,
                     format!("rational {} -", hx(s.as_bytes())), true)
            }
        }
    }

    fn base(&mut self) -> BigInt {
        match self.rng.below(12) {
            0 => BigInt::from(*self.rng.pick(&[0i64, 1, 37, -1, -16, 4294967296, 4294967295, 4294967298, 100])),
            1 => BigInt::from(*self.rng.pick(&[2i64, 36, 10, 16, 35])),
            2 => num::pow(BigInt::from(2), 64) + 16,
            _ => BigInt::from(self.rng.range(2, 36)),
        }
    }

    fn gen_radix(&mut self) -> Case {
        let b = self.base();
        let bexpr = if self.rng.chance(1, 6) { format!("({}^1)", lit(&b)) } else { lit(&b) };
        match self.rng.below(4) {
            0 => {
                let v = self.int();
                let (e, rep) = self.int_expr(&v);
                case(&format!("str_radix({})", rep), format!("str_radix({}, {})", e, bexpr), vec![], Render::Canon,
                     format!("str_radix {} {}", v, b), true)
            }
            1 => {
                let mut v = self.int();
                if self.rng.chance(5, 6) {
                    v = v.abs();
                }
                let (e, rep) = self.int_expr(&v);
                case(&format!("int_radix(str_radix({}))", rep), format!("int_radix(str_radix({}, {}), {})", e, bexpr, bexpr),
                     vec![], Render::Canon, format!("radix_rt {} {}", v, b), true)
            }
            _ => {
                let bb = b.to_u32().filter(|x| (2..=36).contains(x)).unwrap_or(36);
                let nmax = if self.rng.chance(1, 4) { 80 } else { 14 };
                let n = self.rng.below(nmax);
                let bad = self.rng.chance(1, 6);
                let mut s: String = (0..n)
                    .map(|_| {
                        let d = self.rng.below(bb as u64) as u32;
                        let c = char::from_digit(d, 36).unwrap();
                        if self.rng.chance(1, 3) { c.to_ascii_uppercase() } else { c }
                    })
                    .collect();
                if bad {
                    let junk = ['-', '+', ' ', '_', '.', 'z', 'Z', '٣', 'é', '/', ':', '@', '[', '`', '{', 'g', 'G', '9', '2', '8'];
                    let i = self.rng.below(s.chars().count() as u64 + 1) as usize;
                    let mut cs: Vec<char> = s.chars().collect();
                    cs.insert(i, *self.rng.pick(&junk));
                    s = cs.into_iter().collect();
                }
                if self.rng.chance(1, 4) && s.is_ascii() {
                    case("int_radix(bytes)", format!("int_radix($1, {})", bexpr), vec![Bind::Bytes(s.as_bytes().to_vec())],
                         Render::Canon, format!("int_radix {} {}", hx(s.as_bytes()), b), true)
                } else {
                    case("int_radix(str)", format!("int_radix($1, {})", bexpr), vec![Bind::Str(s.clone())], Render::Canon,
                         format!("int_radix {} {}", hx(s.as_bytes()), b), true)
                }
            }
        }
    }

    fn gen_hex(&mut self) -> Case {
        let bs = random_bytes(&mut self.rng, self.max_bytes);
        match self.rng.below(6) {
            0 => case("hex_encode", "hex_encode($1)".into(), vec![Bind::Bytes(bs.clone())], Render::Canon,
                      format!("hex_encode {}", hx(&bs)), !bs.is_empty()),
            1 => case("hex_decode(hex_encode)", "hex_decode(hex_encode($1))".into(), vec![Bind::Bytes(bs.clone())], Render::Canon,
                      format!("hex_rt {}", hx(&bs)), !bs.is_empty()),
            _ => {
                // text to decode: valid hex in random case, sometimes damaged
                let mut t: String = bs.iter().map(|b| {
                    if self.rng.chance(1, 2) { format!("{:02x}", b) } else { format!("{:02X}", b) }
                }).collect();
                if self.rng.chance(1, 3) {
                    let junk = ['g', 'G', ' ', '-', 'x', '/', ':', '@', '`', 'é', '٣', '0', 'f', '\u{0}'];
                    let mut cs: Vec<char> = t.chars().collect();
                    match self.rng.below(3) {
                        0 => { let i = self.rng.below(cs.len() as u64 + 1) as usize; cs.insert(i, *self.rng.pick(&junk)); }
                        1 if !cs.is_empty() => { let i = self.rng.below(cs.len() as u64) as usize; cs[i] = *self.rng.pick(&junk); }
                        _ => { cs.pop(); }
                    }
                    t = cs.into_iter().collect();
                }
                if self.rng.chance(1, 3) {
                    case("hex_decode(bytes)", "hex_decode($1)".into(), vec![Bind::Bytes(t.as_bytes().to_vec())], Render::Canon,
                         format!("hex_decode {}", hx(t.as_bytes())), true)
                } else {
                    case("hex_decode(str)", "hex_decode($1)".into(), vec![Bind::Str(t.clone())], Render::Canon,
                         format!("hex_decode {}", hx(t.as_bytes())), true)
                }
            }
        }
    }

    fn gen_b64(&mut self) -> Case {
        let bs = random_bytes(&mut self.rng, self.max_bytes);
        match self.rng.below(6) {
            0 | 1 => case("base64_encode", "base64_encode($1)".into(), vec![Bind::Bytes(bs.clone())], Render::Canon,
                          format!("b64e {}", hx(&bs)), !bs.is_empty()),
            2 => case("base64_decode(base64_encode)", "base64_decode(base64_encode($1))".into(), vec![Bind::Bytes(bs.clone())],
                      Render::Canon, format!("b64_rt {}", hx(&bs)), !bs.is_empty()),
            _ => {
                const A: &[u8] = b"ABCDEFGHIJKLMNOPQRSTUVWXYZabcdefghijklmnopqrstuvwxyz0123456789+/";
                // own encoder (RFC 4648), then damage
                let mut t: Vec<u8> = vec![];
                for ch in bs.chunks(3) {
                    let g = ((ch[0] as u32) << 16) | ((*ch.get(1).unwrap_or(&0) as u32) << 8) | (*ch.get(2).unwrap_or(&0) as u32);
                    t.push(A[(g >> 18) as usize & 63]);
                    t.push(A[(g >> 12) as usize & 63]);
                    t.push(if ch.len() > 1 { A[(g >> 6) as usize & 63] } else { b'=' });
                    t.push(if ch.len() > 2 { A[g as usize & 63] } else { b'=' });
                }
                match self.rng.below(8) {
                    0 | 1 => {}
                    2 => { while t.last() == Some(&b'=') { t.pop(); } }
                    3 => { if t.last() == Some(&b'=') { t.pop(); } }
                    4 => { t.push(b'='); if self.rng.chance(1, 2) { t.push(b'='); } }
                    5 => {
                        let junk = [b'=', b' ', b'\n', b'-', b'_', b'.', 0, 0x80, 0xff, b'A', b'/', b'+', b'B', b'Q', b'g'];
                        if !t.is_empty() {
                            let i = self.rng.below(t.len() as u64) as usize;
                            t[i] = *self.rng.pick(&junk);
                        }
                    }
                    6 => {
                        let junk = [b'=', b' ', b'\n', b'-', b'_', b'A', b'B', b'/'];
                        let i = self.rng.below(t.len() as u64 + 1) as usize;
                        t.insert(i, *self.rng.pick(&junk));
                    }
                    _ => {
                        let k = self.rng.below(t.len() as u64 + 1) as usize;
                        t.truncate(k);
                    }
                }
                match String::from_utf8(t.clone()) {
                    Ok(s) if self.rng.chance(2, 3) => case("base64_decode(str)", "base64_decode($1)".into(), vec![Bind::Str(s)],
                                                           Render::Canon, format!("b64d {}", hx(&t)), true),
                    _ => case("base64_decode(bytes)", "base64_decode($1)".into(), vec![Bind::Bytes(t.clone())], Render::Canon,
                              format!("b64d {}", hx(&t)), true),
                }
            }
        }
    }

    fn gen_utf8(&mut self) -> Case {
        let s = random_string(&mut self.rng, 24);
        let nt = s.chars().any(|c| c as u32 >= 0x80);
        match self.rng.below(8) {
            0 => case("utf8_encode", "utf8_encode($1)".into(), vec![Bind::Str(s.clone())], Render::Canon,
                      format!("utf8_encode {}", cps_token(&s)), nt),
            1 => case("bytes(str)", "bytes($1)".into(), vec![Bind::Str(s.clone())], Render::Canon,
                      format!("utf8_encode {}", cps_token(&s)), nt),
            2 => case("utf8_decode(utf8_encode)", "utf8_decode(utf8_encode($1))".into(), vec![Bind::Str(s.clone())], Render::Cps,
                      format!("utf8_rt {}", cps_token(&s)), nt),
            3 | 4 => {
                let b = s.as_bytes().to_vec();
                case("utf8_decode(valid)", "utf8_decode($1)".into(), vec![Bind::Bytes(b.clone())], Render::Cps,
                     format!("utf8_decode {}", hx(&b)), nt)
            }
            _ => {
                let mut b = s.as_bytes().to_vec();
                const BAD: &[&[u8]] = &[
                    &[0xc0, 0x80], &[0xc1, 0xbf], &[0xe0, 0x80, 0x80], &[0xe0, 0x9f, 0xbf], &[0xed, 0xa0, 0x80], &[0xed, 0xbf, 0xbf],
                    &[0xf0, 0x80, 0x80, 0x80], &[0xf0, 0x8f, 0xbf, 0xbf], &[0xf4, 0x90, 0x80, 0x80], &[0xf5, 0x80, 0x80, 0x80],
                    &[0xff], &[0xfe], &[0x80], &[0xbf], &[0xc2], &[0xe2, 0x82], &[0xf0, 0x9f, 0x98], &[0xc2, 0x41], &[0xe2, 0x41, 0x80],
                    &[0xf8, 0x88, 0x80, 0x80, 0x80], &[0xed, 0x9f, 0xbf], &[0xee, 0x80, 0x80], &[0xf4, 0x8f, 0xbf, 0xbf], &[0xe0, 0xa0, 0x80],
                    &[0xf0, 0x90, 0x80, 0x80], &[0xc2, 0x80], &[0xdf, 0xbf], &[0xef, 0xbf, 0xbf], &[0xf1, 0x80, 0x80, 0x80], &[0xf3, 0xbf, 0xbf, 0xbf],
                    &[0xe1, 0x80, 0xc0], &[0xf1, 0x80, 0x80, 0x7f], &[0xf1, 0xc0, 0x80, 0x80], &[0xf1, 0x80, 0x7f, 0x80],
                ];
                match self.rng.below(4) {
                    0 => {
                        let i = self.rng.below(b.len() as u64 + 1) as usize;
                        let ins = *self.rng.pick(BAD);
                        for (k, x) in ins.iter().enumerate() {
                            b.insert(i + k, *x);
                        }
                    }
                    1 if !b.is_empty() => {
                        let i = self.rng.below(b.len() as u64) as usize;
                        b[i] = self.rng.below(256) as u8;
                    }
                    2 if !b.is_empty() => {
                        let i = self.rng.below(b.len() as u64) as usize;
                        b.remove(i);
                    }
                    _ => {
                        let k = self.rng.below(b.len() as u64 + 1) as usize;
                        b.truncate(k);
                        if self.rng.chance(1, 2) {
                            b.extend_from_slice(*self.rng.pick(BAD));
                        }
                    }
                }
                case("utf8_decode(raw)", "utf8_decode($1)".into(), vec![Bind::Bytes(b.clone())], Render::Cps,
                     format!("utf8_decode {}", hx(&b)), true)
            }
        }
    }

    fn gen_chr(&mut self) -> Case {
        match self.rng.below(6) {
            0 | 1 => {
                let v = match self.rng.below(5) {
                    0 => BigInt::from(*self.rng.pick(BOUNDARY_SCALARS)) + self.rng.range(-1, 1),
                    1 => BigInt::from(*self.rng.pick(&[0xd800i64, 0xdbff, 0xdc00, 0xdfff, 0x110000, 0x10ffff, -1, 4294967295, 4294967296, 4294967361, -4294967231])),
                    2 => self.int(),
                    _ => BigInt::from(self.rng.below(0x110400)),
                };
                let (e, rep) = self.int_expr(&v);
                case(&format!("chr({})", rep), format!("chr({})", e), vec![], Render::Cps, format!("chr {}", v), true)
            }
            2 => {
                let v = BigInt::from(random_scalar(&mut self.rng) as u32);
                let (e, rep) = self.int_expr(&v);
                case(&format!("ord(chr({}))", rep), format!("ord(chr({}))", e), vec![], Render::Canon, format!("chr_ord {}", v), true)
            }
            3 => {
                let c = random_scalar(&mut self.rng).to_string();
                case("chr(ord(c))", "chr(ord($1))".into(), vec![Bind::Str(c.clone())], Render::Cps, format!("ord_chr {}", cps_token(&c)), true)
            }
            _ => {
                let n = *self.rng.pick(&[0u64, 1, 1, 1, 1, 2, 3]);
                let s: String = (0..n).map(|_| random_scalar(&mut self.rng)).collect();
                case("ord", "ord($1)".into(), vec![Bind::Str(s.clone())], Render::Canon, format!("ord {}", cps_token(&s)), true)
            }
        }
    }

    /// the JSON text layer: byte-for-byte text of json_encode, json_decode on texts, and the round trip
    /// through the text model
    fn gen_json_text(&mut self) -> Case {
        match self.rng.below(12) {
            0..=3 => {
                // writer: escapes, non-ASCII, boundaries, empty containers, floats, unsorted keys
                let shaped = self.rng.chance(2, 3);
                let v = if self.rng.chance(2, 3) { escapy_val(&mut self.rng, 4) } else { random_val(&mut self.rng, 4, shaped, false) };
                let mut e = vec![];
                fmt_entries(&v, &mut e);
                case("json_encode text", "json_encode($1)".into(), vec![Bind::Val(v.clone())], Render::Canon,
                     format!("json_text {} {}", v.token(), table(e)), true)
            }
            4 => {
                // deep nesting: writer and round trip around the recursion limit of the parser
                let d = *self.rng.pick(&[100u64, 126, 127, 128, 129, 150, 127, 128]);
                let dicts = self.rng.chance(1, 2);
                let leaf = random_val(&mut self.rng, 1, true, false);
                let v = nest(leaf, d, dicts, &mut self.rng);
                let mut e = vec![];
                fmt_entries(&v, &mut e);
                if self.rng.chance(1, 3) {
                    return case("json_encode text(deep)", "json_encode($1)".into(), vec![Bind::Val(v.clone())], Render::Canon,
                                format!("json_text {} {}", v.token(), table(e)), true);
                }
                let mut texts = vec![];
                fmt_entries_texts(&v, &mut texts);
                for t in &texts {
                    parse_entries(t, &mut e);
                }
                let key = if depth_of(&v) >= 128 { "json_decode(json_encode(v))(depth>=128)" } else { "json_decode(json_encode(v)) via text" };
                case(key, "json_decode(json_encode($1))".into(), vec![Bind::Val(v.clone())], Render::Canon,
                     format!("json_rt_text {} {}", v.token(), table(e)), true)
            }
            5 | 6 => {
                let v = if self.rng.chance(1, 2) { escapy_val(&mut self.rng, 4) } else { random_val(&mut self.rng, 4, true, false) };
                let mut e = vec![];
                fmt_entries(&v, &mut e);
                let mut texts = vec![];
                fmt_entries_texts(&v, &mut texts);
                for t in &texts {
                    parse_entries(t, &mut e);
                }
                case("json_decode(json_encode(v)) via text", "json_decode(json_encode($1))".into(), vec![Bind::Val(v.clone())], Render::Canon,
                     format!("json_rt_text {} {}", v.token(), table(e)), true)
            }
            _ => {
                // parser on texts: serde output (compact / pretty), hand-written, deep, damaged
                let mut t = match self.rng.below(6) {
                    0 => self.rng.pick(JSON_TEXTS).to_string(),
                    1 => {
                        let d = *self.rng.pick(&[126usize, 127, 128, 129, 200]);
                        let (o, c) = if self.rng.chance(1, 2) { ("[", "]") } else { ("{\"a\":", "}") };
                        format!("{}{}{}", o.repeat(d), self.rng.pick(&["1", "[]", "{}", "null", "\"x\""]), c.repeat(d))
                    }
                    2 => {
                        let j = random_json(&mut self.rng, 4);
                        serde_json::to_string_pretty(&j).unwrap()
                    }
                    3 => {
                        let v = escapy_val(&mut self.rng, 3);
                        serde_json::to_string(&serde_json::Value::String(match &v { V::Str(s) => s.clone(), _ => escapy_string(&mut self.rng) })).unwrap()
                    }
                    _ => {
                        let j = random_json(&mut self.rng, 4);
                        serde_json::to_string(&j).unwrap()
                    }
                };
                if self.rng.chance(1, 3) {
                    // damage: delete / insert / replace one character
                    let mut cs: Vec<char> = t.chars().collect();
                    let junk = ['"', '\\', ',', ':', '[', ']', '{', '}', ' ', '\n', '0', '1', '-', '.', 'e', 'u', 'n', '\u{0}', '\u{1f}', 'é', '/', 'd', '8'];
                    match self.rng.below(3) {
                        0 if !cs.is_empty() => { let i = self.rng.below(cs.len() as u64) as usize; cs.remove(i); }
                        1 => { let i = self.rng.below(cs.len() as u64 + 1) as usize; cs.insert(i, *self.rng.pick(&junk)); }
                        _ if !cs.is_empty() => { let i = self.rng.below(cs.len() as u64) as usize; cs[i] = *self.rng.pick(&junk); }
                        _ => {}
                    }
                    t = cs.into_iter().collect();
                }
                let mut e = vec![];
                parse_entries(&t, &mut e);
                case("json_decode text", "json_decode($1)".into(), vec![Bind::Str(t.clone())], Render::Canon,
                     format!("json_parse {} {}", hx(t.as_bytes()), table(e)), true)
            }
        }
    }

    /// TEXT-driven JSON-shaped inputs (both a Noulith literal and JSON) with repeated keys at depth 0-3:
    /// read by `eval` and by `json_decode`, each against the model (last occurrence wins in both)
    fn dup_text(&mut self, depth: u32) -> String {
        let leaf = |rng: &mut Rng| -> String {
            match rng.below(6) {
                0 => "null".into(),
                1 => format!("{}", rng.range(-50, 50)),
                2 => format!("{}", rng.next() as i64),
                3 => format!("{}.5", rng.range(-9, 9)),
                _ => format!("\"{}\"", (0..rng.below(4)).map(|_| *rng.pick(&['a', 'b', 'k', ' ', 'é', '1', '_'])).collect::<String>()),
            }
        };
        if depth == 0 || self.rng.chance(1, 4) {
            return leaf(&mut self.rng);
        }
        if self.rng.chance(1, 3) {
            let n = self.rng.below(4);
            let items: Vec<String> = (0..n).map(|_| self.dup_text(depth - 1)).collect();
            return format!("[{}]", items.join(", "));
        }
        // a dict whose keys come from a tiny pool: repeats are the rule
        let pool = ["a", "b", "", "k k", "é", "a "];
        let n = 1 + self.rng.below(6);
        let mut members = vec![];
        for _ in 0..n {
            let width = (2 + self.rng.below(5) as usize).min(pool.len());
            let k = *self.rng.pick(&pool[..width]);
            let v = self.dup_text(depth - 1);
            members.push(format!("\"{}\": {}", k, v));
        }
        format!("{{{}}}", members.join(", "))
    }

    fn gen_dup_keys(&mut self) -> Vec<Case> {
        let d = 1 + self.rng.below(3) as u32;
        let mut t = self.dup_text(d);
        if !t.contains('{') {
            t = format!("{{\"a\": {}, \"b\": 0, \"a\": {}}}", t, self.dup_text(1));
        }
        let mut e = vec![];
        parse_entries(&t, &mut e);
        let tbl = table(e);
        vec![
            case("eval(text with repeated keys)", "eval($1)".into(), vec![Bind::Str(t.clone())], Render::Canon,
                 format!("json_lit {} {}", hx(t.as_bytes()), tbl), true),
            case("json_decode(text with repeated keys)", "json_decode($1)".into(), vec![Bind::Str(t.clone())], Render::Canon,
                 format!("json_lit {} {}", hx(t.as_bytes()), tbl), true),
        ]
    }

    fn gen_json(&mut self, rn: &mut Runner) -> Case {
        if self.rng.chance(1, 4) {
            let mut cs = self.gen_dup_keys();
            let first = cs.remove(0);
            self.extra.extend(cs);
            return first;
        }
        match self.rng.below(10) {
            0 | 1 => {
                let shaped = self.rng.chance(2, 3);
                let v = random_val(&mut self.rng, 4, shaped, false);
                case(if shaped { "json_encode(shaped)" } else { "json_encode(any)" }, "json_encode($1)".into(), vec![Bind::Val(v.clone())], Render::JsonText,
                     format!("json_enc {}", v.token()), true)
            }
            2 | 3 => {
                let shaped = self.rng.chance(3, 4);
                let v = random_val(&mut self.rng, 4, shaped, false);
                case(if shaped { "json_decode(json_encode(shaped))" } else { "json_decode(json_encode(any))" },
                     "json_decode(json_encode($1))".into(), vec![Bind::Val(v.clone())], Render::Canon,
                     format!("json_rt {}", v.token()), true)
            }
            4 => {
                let v = random_val(&mut self.rng, 4, true, false);
                case("json_decode(json_encode(v))==v", "json_decode(json_encode($1)) == $1".into(), vec![Bind::Val(v.clone())], Render::Canon,
                     "echo ok 1".into(), true)
            }
            5 | 6 => {
                let j = random_json(&mut self.rng, 4);
                let text = if self.rng.chance(1, 4) { serde_json::to_string_pretty(&j).unwrap() } else { serde_json::to_string(&j).unwrap() };
                // what the text denotes as a serde value (text with floats may re-read slightly differently only if
                // serde_json's printer does not round-trip; the token is taken from the re-read value)
                let j2: serde_json::Value = serde_json::from_str(&text).unwrap_or(serde_json::Value::Null);
                case("json_decode(text)", "json_decode($1)".into(), vec![Bind::Str(text.clone())], Render::Canon,
                     format!("json_dec {}", json_token(&j2)), true)
            }
            7 => {
                // literal / json_decode agreement and repr round trip (Rust against Rust)
                let v = random_val(&mut self.rng, 4, true, true);
                let text = v.literal();
                if self.rng.chance(1, 2) {
                    let expected = rn.run("json_decode($1)", &[Bind::Str(text.clone())], Render::Canon);
                    case("eval(literal)~json_decode(literal)", "eval($1)".into(), vec![Bind::Str(text.clone())], Render::Canon,
                         format!("echo {}", expected), true)
                } else {
                    let expected = rn.run("$1", &[Bind::Val(v.clone())], Render::Canon);
                    case("eval(repr(v))~v", "eval(repr($1))".into(), vec![Bind::Val(v.clone())], Render::Canon,
                         format!("echo {}", expected), true)
                }
            }
            _ => {
                // malformed JSON text: error class
                let j = random_json(&mut self.rng, 3);
                let mut t = serde_json::to_string(&j).unwrap();
                let bads = ["", "[1,]", "{\"a\":1,}", "{a:1}", "[1 2]", "nul", "tru", "'a'", "[", "{", "\"abc", "1e400", "-", "01", "1.", ".5", "+1",
                            "[1]]", "{\"a\"}", "\"\\x41\"", "\"\\ud800\"", "NaN", "Infinity", "\u{feff}1", "1 2", "[\"a\" \"b\"]", "{\"a\":}", "\"\t\""];
                if self.rng.chance(1, 2) || t.len() < 2 {
                    t = self.rng.pick(&bads).to_string();
                } else {
                    // cut the text somewhere strictly inside: never valid JSON for arrays / objects / strings
                    let cs: Vec<char> = t.chars().collect();
                    if cs[0] == '[' || cs[0] == '{' || cs[0] == '"' {
                        let k = 1 + self.rng.below(cs.len() as u64 - 1) as usize;
                        t = cs[..k].iter().collect();
                    } else {
                        t = format!("{} ]", t);
                    }
                }
                case("json_decode(malformed)", "json_decode($1)".into(), vec![Bind::Str(t)], Render::Canon, "echo throw".into(), true)
            }
        }
    }

    /// large inputs: the round trip must return ALL the bytes (length first, then content)
    fn gzip_big(kind: u8, len: usize, seed: u64) -> Case {
        case(&format!("decompress(compress)(big,kind{})", kind),
             "[len(decompress(compress($1))), decompress(compress($1)) == $1, len($1)]".into(),
             vec![Bind::Gen(kind, len, seed)], Render::Canon, format!("echo ok [{},1,{}]", len, len), true)
    }

    fn gen_gzip(&mut self, rn: &mut Runner) -> Case {
        if self.rng.chance(1, 6) {
            let kind = self.rng.below(5) as u8;
            let len = match self.rng.below(4) {
                0 => 61430 + self.rng.below(30) as usize,
                1 => 32768 * (1 + self.rng.below(8) as usize) + self.rng.below(3) as usize - 1,
                2 => 61441 + self.rng.below(200_000) as usize,
                _ => 1000 + self.rng.below(400_000) as usize,
            };
            let seed = self.rng.next() % 1_000_000;
            return Gen::gzip_big(kind, len, seed);
        }
        let big = self.rng.chance(1, 30);
        let bs = if big {
            let n = 1000 + self.rng.below(60000);
            let pat = random_bytes(&mut self.rng, 40);
            (0..n).map(|i| if pat.is_empty() { (i % 251) as u8 } else { pat[(i as usize) % pat.len()] ^ ((i / 977) as u8) }).collect()
        } else {
            random_bytes(&mut self.rng, self.max_bytes)
        };
        match self.rng.below(5) {
            0 | 1 | 2 => case("decompress(compress)", "decompress(compress($1))".into(), vec![Bind::Bytes(bs.clone())], Render::Canon,
                              format!("gzip_rt {}", hx(&bs)), true),
            3 => {
                // garbage that does not start with the gzip magic
                let mut g = random_bytes(&mut self.rng, 40);
                if g.len() >= 2 && g[0] == 0x1f && g[1] == 0x8b {
                    g[0] = 0;
                }
                case("decompress(garbage)", "decompress($1)".into(), vec![Bind::Bytes(g)], Render::Canon, "echo throw".into(), true)
            }
            _ => {
                // a damaged gzip stream: truncated, or one byte changed
                let small: Vec<u8> = bs.iter().take(300).cloned().collect();
                let z = rn.run("compress($1)", &[Bind::Bytes(small)], Render::Canon);
                let mut zb = z.strip_prefix("ok b:").map(unhex).unwrap_or_default();
                if zb.is_empty() {
                    zb = vec![0x1f, 0x8b];
                }
                if self.rng.chance(1, 2) {
                    let k = self.rng.below(zb.len() as u64) as usize;
                    zb.truncate(k);
                    case("decompress(truncated)", "decompress($1)".into(), vec![Bind::Bytes(zb)], Render::Canon, "echo throw".into(), true)
                } else {
                    let i = self.rng.below(zb.len() as u64) as usize;
                    zb[i] ^= 1 << self.rng.below(8);
                    case("decompress(damaged)", "decompress($1)".into(), vec![Bind::Bytes(zb.clone())], Render::Canon,
                         format!("decompress {}", hx(&zb)), true)
                }
            }
        }
    }
}

trait Pipe: Sized {
    fn pipe<R>(self, f: impl FnOnce(Self) -> R) -> R {
        f(self)
    }
}
impl<T> Pipe for T {}

fn input_line(c: &Case) -> String {
    let b: Vec<String> = c.binds.iter().map(|b| b.encode()).collect();
    format!("[{}|{}] {}", c.render.name(), b.join(","), c.src)
}
fn parse_input_line(l: &str) -> Option<(Render, Vec<Bind>, String)> {
    let l = l.strip_prefix('[')?;
    let (head, src) = l.split_once("] ")?;
    let (r, b) = head.split_once('|')?;
    let binds: Vec<Bind> = if b.is_empty() { vec![] } else { b.split(',').map(Bind::decode).collect::<Option<Vec<_>>>()? };
    Some((Render::parse(r), binds, src.to_string()))
}

/// `nopanic` in a model column means "anything but a crash"
fn effective(model: &str, rust: &str) -> String {
    if model == "nopanic" {
        if rust == "panic" { "not-a-panic".into() } else { rust.to_string() }
    } else {
        model.to_string()
    }
}

fn main() {
    let args = parse_args();
    install_quiet_panic_hook();
    let mut rep = Report::new("C16", &args);
    rep.rule = "nine families: show (str/$/print/repr/format-string flags x Small/Big), int/number(str) incl. round trips, \
                rational(str) from the grammar [sign]digits[.digits][e[sign]digits] and p/q plus whitespace and malformed \
                variants, str_radix/int_radix (bases 2..36 and invalid), hex, base64, utf8 (boundary scalar values, invalid \
                sequences), chr/ord, json (nested values depth <= 4, serde values, literal/repr agreement, malformed text), \
                gzip round trip and damaged streams; strings/bytes/values are bound as variables (no lexer involved); a \
                case is non-trivial unless its payload is empty / a 31-bit Small integer / pure ASCII"
        .into();
    let mut rn = Runner::new();

    if let Some(path) = &args.replay {
        let text = std::fs::read_to_string(path).expect("replay file");
        for line in text.lines() {
            if let Some(rest) = line.strip_prefix("input: ") {
                match parse_input_line(rest) {
                    Some((r, b, src)) => {
                        let out = rn.run(&src, &b, r);
                        println!("rust: {}", out);
                        if out == "panic" || out == "throw" {
                            // show the message too
                            let mut text = src.clone();
                            for (i, bd) in b.iter().enumerate().rev() {
                                let name = format!("zr{}", i);
                                let _ = rn.it.env.borrow_mut().insert(name.clone(), ObjType::Any, bd.to_obj(&rn.it));
                                text = text.replace(&format!("${}", i + 1), &name);
                            }
                            println!("rust detail: {}", rn.it.eval(&text).detail());
                        }
                    }
                    None => println!("rust: (cannot parse the input line) {}", Interp::new().eval(rest).detail()),
                }
            }
            if let Some(rest) = line.strip_prefix("request: ") {
                let r = run_driver(&args.driver, &[rest.to_string()]);
                println!("model (impl <tab> spec): {}", r[0]);
            }
        }
        return;
    }

    let thorough = args.tier == "thorough";
    let n_cases: u64 = if thorough { 400_000 } else { 28_000 };
    let mut g = Gen {
        extra: vec![],
        rng: Rng::new(args.seed),
        specials: special_ints(),
        max_bits: if thorough { 3000 } else { 700 },
        max_bytes: if thorough { 1200 } else { 300 },
    };

    // fixed corpus first: the inputs of the findings (must pass after the fixes)
    let mut pending: Vec<Case> = vec![];
    for (s, tok) in [("-1.5", "m:1:5:-"), ("-0.5", "m:0:5:-"), ("-.5", "m::5:-"), ("+.5", "p::5:-"), ("-0.25e1", "m:0:25:en1"),
                     ("-1.5/-0.5", "m:1:5:-/m:0:5:-"), ("-12.75", "m:12:75:-")] {
        pending.push(case("rational(dec)", "rational($1)".into(), vec![Bind::Str(s.into())], Render::Canon,
                          format!("rational {} {}", hx(s.as_bytes()), tok), true));
    }
    for s in ["1.5e-2147483648", "1.25e-2147483647", "1e2147483648"] {
        pending.push(case("rational(raw)", "rational($1)".into(), vec![Bind::Str(s.into())], Render::Canon,
                          format!("rational {} -", hx(s.as_bytes())), true));
    }
    for b in ["x", "X", "b", "o"] {
        for v in [-1i64, -255, i64::MIN, -2] {
            for how in 0..2 {
                let (e, r) = produce(&BigInt::from(v), how);
                pending.push(case(&format!("show({},{})", b, r), format!("F\"{{{} #{}}}\"", e, b), vec![], Render::Canon,
                                  format!("show {} {}:{}", b, r, v), true));
            }
        }
    }
    for b in [2, 10, 16, 36] {
        pending.push(case("str_radix(s)", format!("str_radix(0, {})", b), vec![], Render::Canon, format!("str_radix 0 {}", b), true));
        pending.push(case("int_radix(str_radix(s))", format!("int_radix(str_radix(0, {}), {})", b, b), vec![], Render::Canon,
                          format!("radix_rt 0 {}", b), true));
    }
    pending.push(case("fmt(multi,1of2)", "F\"{255 #x} {255}\"".into(), vec![], Render::Canon,
                      "fmtmulti - x,r,32,0,s:255,20;d,r,32,0,s:255,-".into(), true));
    pending.push(case("fmt(multi,1of2)", "F\"{7 #03}:{7}\"".into(), vec![], Render::Canon,
                      "fmtmulti - d,r,48,3,s:7,3a;d,r,32,0,s:7,-".into(), true));
    for v in [BigInt::from(1024), BigInt::from(4052555153018976267i64), BigInt::from(-9007199254740993i64)] {
        let val = V::List(vec![V::IntBig(v.clone()), V::Dict(vec![("a".into(), V::IntBig(v.clone()))])]);
        pending.push(case("json_encode(shaped)", "json_encode($1)".into(), vec![Bind::Val(val.clone())], Render::JsonText,
                          format!("json_enc {}", val.token()), true));
        pending.push(case("json_decode(json_encode(shaped))", "json_decode(json_encode($1))".into(), vec![Bind::Val(val.clone())],
                          Render::Canon, format!("json_rt {}", val.token()), true));
        pending.push(case("json_decode(json_encode(v))==v", "json_decode(json_encode($1)) == $1".into(), vec![Bind::Val(V::IntBig(v.clone()))],
                          Render::Canon, "echo ok 1".into(), true));
    }
    for (kind, len) in [(0u8, 61440usize), (0, 61441), (0, 65536), (0, 100_000), (0, 200_000), (0, 1 << 20), (1, 300_000), (1, 500_000),
                        (2, 140_000), (2, 400_000), (3, 140_000), (3, 300_000), (4, 1 << 20)] {
        pending.push(Gen::gzip_big(kind, len, 7 + len as u64));
    }
    {
        let c = case("show(x,s)", "F\"{n #x}\"".replace("n", "255"), vec![], Render::Canon, "show x s:255".into(), true);
        pending.extend(freeze_variants(&c, &["255".to_string()]));
        pending.push(case("show(x,s)/freeze-lambda", "(\\ -> (qg := freeze \\n -> F\"{n #x}\"; qg(255)))()".into(), vec![], Render::Canon,
                          "show x s:255".into(), true));
        pending.push(c);
    }

    // machine-word boundaries in every production (literal / ^1 / difference of bigs / unary minus)
    // through every integer codec
    {
        let two63 = num::pow(BigInt::from(2), 63);
        let bvals: Vec<BigInt> = vec![-&two63, -&two63 + 1, -&two63 - 1, two63.clone(), &two63 - 1, &two63 + 1,
                                      -num::pow(BigInt::from(2), 64), num::pow(BigInt::from(2), 64) - 1, BigInt::from(-1), BigInt::from(0)];
        for v in &bvals {
            for how in 0..4u64 {
                let (e, r) = produce(v, how);
                for b in [2, 8, 10, 16, 36] {
                    pending.push(case(&format!("str_radix({})", r), format!("str_radix({}, {})", e, b), vec![], Render::Canon,
                                      format!("str_radix {} {}", v, b), true));
                    pending.push(case(&format!("int_radix(str_radix({}))", r), format!("int_radix(str_radix({}, {}), {})", e, b, b),
                                      vec![], Render::Canon, format!("radix_rt {} {}", v, b), true));
                }
                for (k, src, base, render) in [
                    ("str", format!("str({})", e), "d", Render::Canon), ("$", format!("$({})", e), "d", Render::Canon),
                    ("repr", format!("repr({})", e), "d", Render::Canon), ("print", format!("print({})", e), "d", Render::Output),
                    ("fd", format!("F\"{{{}}}\"", e), "d", Render::Canon), ("x", format!("F\"{{{} #x}}\"", e), "x", Render::Canon),
                    ("X", format!("F\"{{{} #X}}\"", e), "X", Render::Canon), ("b", format!("F\"{{{} #b}}\"", e), "b", Render::Canon),
                    ("o", format!("F\"{{{} #o}}\"", e), "o", Render::Canon),
                ] {
                    let c = case(&format!("show({},{})", k, r), src, vec![], render, format!("show {} {}:{}", base, r, v), true);
                    if c.src.starts_with('F') {
                        pending.extend(freeze_variants(&c, &[e.clone()]));
                    }
                    pending.push(c);
                }
                pending.push(case(&format!("int(str(n))"), format!("int(str({}))", e), vec![], Render::Canon, format!("int_rt {}:{}", r, v), true));
                pending.push(case("show(list)", format!("str([{}, {}])", e, e), vec![], Render::Canon, format!("showlist {}:{},{}:{}", r, v, r, v), true));
                pending.push(case("json_encode(expr)", format!("json_encode([{}])", e), vec![], Render::JsonText,
                                  format!("json_enc l1;i{};", v), true));
                pending.push(case("json_decode(json_encode(expr))", format!("json_decode(json_encode([{}]))", e), vec![], Render::Canon,
                                  format!("json_rt l1;i{};", v), true));
            }
        }
    }
    // nasty characters at every position through every text codec, and a single-character sweep
    {
        let nasty: Vec<String> = [0xfeffu32, 0, 0xfffd, 0xfffe, 0xffff, 0x2028, 0x2029, 0xa0, 0x200b, 0x202e, 0x301, 0x300, 0x20dd, 0xd7ff, 0xe000,
                                  0x10ffff, 0x10000, 0x1f600, 1, 0x1f, 0x7f, 0x85, 0x80, 0x7ff, 0x800, 0x22, 0x5c, 0x27, 0x9, 0xa, 0xd]
            .iter().map(|c| char::from_u32(*c).unwrap().to_string()).chain(["\r\n".to_string(), "\u{feff}\u{feff}".to_string(), "e\u{301}".to_string()]).collect();
        let mut strings: Vec<String> = vec![];
        for x in &nasty {
            strings.push(x.clone());
            strings.push(format!("{}ab", x));
            strings.push(format!("a{}b", x));
            strings.push(format!("ab{}", x));
        }
        for st in &strings {
            let cps = cps_token(st);
            let b = st.as_bytes().to_vec();
            for (key, src) in [
                ("utf8_decode(utf8_encode)", "utf8_decode(utf8_encode($1))"), ("utf8_decode(bytes(s))", "utf8_decode(bytes($1))"),
                ("utf8~base64", "utf8_decode(base64_decode(base64_encode(utf8_encode($1))))"),
                ("utf8~hex", "utf8_decode(hex_decode(hex_encode(utf8_encode($1))))"), ("str(s)", "str($1)"), ("$(s)", "$($1)"),
            ] {
                pending.push(case(key, src.into(), vec![Bind::Str(st.clone())], Render::Cps, format!("utf8_rt {}", cps), true));
            }
            pending.push(case("utf8_decode(valid)", "utf8_decode($1)".into(), vec![Bind::Bytes(b.clone())], Render::Cps,
                              format!("utf8_decode {}", hx(&b)), true));
            pending.push(case("utf8_encode(utf8_decode(b))", "utf8_encode(utf8_decode($1))".into(), vec![Bind::Bytes(b.clone())], Render::Canon,
                              format!("utf8_encode {}", cps), true));
            pending.push(case("eval(repr(s))", "eval(repr($1))".into(), vec![Bind::Str(st.clone())], Render::Cps,
                              format!("echo ok u:{}", if st.is_empty() { String::new() } else { cps.clone() }), true));
            for v in [V::Str(st.clone()), V::Dict(vec![(st.clone(), V::Str(st.clone()))]), V::List(vec![V::Str(st.clone()), V::Null])] {
                pending.push(case("json_decode(json_encode(v)) via text", "json_decode(json_encode($1))".into(), vec![Bind::Val(v.clone())],
                                  Render::Canon, format!("json_rt_text {} -", v.token()), true));
                pending.push(case("json_encode text", "json_encode($1)".into(), vec![Bind::Val(v.clone())], Render::Canon,
                                  format!("json_text {} -", v.token()), true));
            }
        }
        // single characters: 2000 scalar values spread over all planes (stride 557) plus every boundary
        let mut sweep: Vec<u32> = (0..2000u32).map(|i| i * 557).filter(|c| *c < 0x110000).collect();
        sweep.extend_from_slice(BOUNDARY_SCALARS);
        for c in sweep {
            if let Some(ch) = char::from_u32(c) {
                let st = ch.to_string();
                pending.push(case("utf8_decode(utf8_encode)(sweep)", "utf8_decode(utf8_encode($1))".into(), vec![Bind::Str(st.clone())], Render::Cps,
                                  format!("utf8_rt {}", c), c >= 0x80));
                pending.push(case("chr(ord(c))(sweep)", "chr(ord($1))".into(), vec![Bind::Str(st.clone())], Render::Cps, format!("ord_chr {}", c), true));
            } else {
                pending.push(case("chr(surrogate)", format!("chr({})", c), vec![], Render::Cps, format!("chr {}", c), true));
            }
        }
    }
    for t in ["{\"a\": 1, \"a\": 2}", "{\"a\": 1, \"b\": {\"k\": [1], \"k\": -2}, \"a\": \"x\"}", "[{\"\": 1, \"\": 1.5, \"\": null}]",
              "{\"a\": {\"a\": {\"a\": 1, \"a\": [2, {\"b\": 3, \"b\": 4}]}, \"a\": 5}}", "{\"a\": 1, \"b\": 2, \"a\": 3, \"b\": 4, \"a\": 5}"] {
        for (key, src) in [("eval(text with repeated keys)", "eval($1)"), ("json_decode(text with repeated keys)", "json_decode($1)")] {
            let mut e = vec![];
            parse_entries(t, &mut e);
            pending.push(case(key, src.into(), vec![Bind::Str(t.to_string())], Render::Canon,
                              format!("json_lit {} {}", hx(t.as_bytes()), table(e)), true));
        }
    }
    // `{...defaults, "k": v}`: a written key overrides a splatted one, a later splat overrides an earlier key
    pending.push(case("dict literal with splat", "(\\ -> (qd := {\"k\": 1, \"j\": 2}; {...qd, \"k\": 3}))()".into(), vec![], Render::Canon,
                      "echo ok {s:6a:2,s:6b:3}".into(), true));
    pending.push(case("dict literal with splat", "(\\ -> (qd := {\"k\": 1, \"j\": 2}; {\"k\": 3, ...qd}))()".into(), vec![], Render::Canon,
                      "echo ok {s:6a:2,s:6b:1}".into(), true));
    pending.push(case("decompress(garbage)", "decompress($1)".into(), vec![Bind::Bytes(vec![1, 2, 3])], Render::Canon, "echo throw".into(), true));
    pending.push(case("decompress(garbage)", "decompress($1)".into(), vec![Bind::Bytes(vec![])], Render::Canon, "echo throw".into(), true));

    let mut total = pending.len() as u64;
    let batch = 4000usize;
    loop {
        while pending.len() < batch && total < n_cases {
            let c = match g.rng.below(100) {
                0..=18 => g.gen_show(),
                19..=29 => g.gen_intparse(),
                30..=45 => g.gen_rational(),
                46..=56 => g.gen_radix(),
                57..=64 => g.gen_hex(),
                65..=73 => g.gen_b64(),
                74..=82 => g.gen_utf8(),
                83..=87 => g.gen_chr(),
                88..=93 => g.gen_json(&mut rn),
                94..=97 => g.gen_json_text(),
                _ => g.gen_gzip(&mut rn),
            };
            pending.push(c);
            total += 1;
            for x in g.extra.drain(..) {
                pending.push(x);
                total += 1;
            }
        }
        if pending.is_empty() {
            break;
        }
        let cases: Vec<Case> = pending.drain(..).collect();
        let requests: Vec<String> = cases.iter().map(|c| c.request.clone()).collect();
        let resp = run_driver(&args.driver, &requests);
        for (c, r) in cases.iter().zip(resp.iter()) {
            let rust = rn.run(&c.src, &c.binds, c.render);
            let input = format!("{}\nrequest: {}", input_line(c), c.request);
            rep.case(&input_line(c), c.nontrivial);
            rep.arm(&c.key);
            rep.outcome(if rust.starts_with("ok") { "ok" } else { rust.as_str() });
            let parts: Vec<&str> = r.split('\t').collect();
            if parts.len() < 2 {
                rep.judge(&format!("driver:{}", c.key), &input, &rust, r, r);
                continue;
            }
            let mut impl_ = resolve_fi(parts[0]);
            let spec = resolve_fi(parts[1]);
            if impl_ == "defer-f64" {
                impl_ = c.f64_of.clone().unwrap_or_else(|| "throw".into());
            }
            let impl_e = effective(&impl_, &rust);
            let mut spec_e = effective(&spec, &rust);
            if spec == "nopanic" && rust != "panic" {
                // unspecified by the property: only the model comparison decides
                spec_e = rust.clone();
            }
            rep.judge(&c.key, &input, &rust, &impl_e, &spec_e);
        }
        if total >= n_cases {
            break;
        }
    }
    rep.write(&args.out);
}
