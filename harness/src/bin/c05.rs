//! C05 correspondence: generated core-language programs run on the real interpreter and on the Lean
//! reference evaluator; compared: final value, printed output, raised / not raised.
use vharness::coreast::Expr;
use vharness::coregen::*;
use vharness::*;

const RUST_FUEL: u64 = 300_000;
const LEAN_FUEL: u64 = 700;

fn canon_err_strings(s: &str) -> String {
    s.to_string()
}

fn run_rust(src: &str) -> (String, bool) {
    let it = Interp::new();
    noulith::verif_set_fuel(RUST_FUEL);
    let out = it.eval(src);
    let exhausted = noulith::verif_get_fuel() == 0;
    noulith::verif_set_fuel(u64::MAX);
    let printed = it.take_output();
    (format!("{} out={}", canon_err_strings(&out.class()), hex(printed.as_bytes())), exhausted)
}

fn main() {
    let args = parse_args();
    install_quiet_panic_hook();
    let mut rep = Report::new("C05", &args);
    rep.rule = "typed random generator of core-language programs (see harness/src/coregen.rs): 3-8 top-level statements, \
                nesting depth <= max_depth, lambdas with type-annotated parameters (builtin type names, variables holding types, \
                side-effecting / mismatching / non-type / unbound annotations, side-effecting defaults, assignments violating \
                the declared type), ~10% programs with an injected fault (undeclared name, redeclaration, arity, type, \
                unpack length, escaping break, annotation mismatch, annotation that is not a type, assignment of another \
                kind to a typed parameter), half of those caught by try; compared: final value (dump of every top-level \
                variable), printed output, raised/not raised. non-trivial = uses at least 4 distinct language features; \
                distinct = distinct program text"
        .into();

    if let Some(path) = &args.replay {
        let text = std::fs::read_to_string(path).expect("replay file");
        for line in text.lines() {
            if let Some(rest) = line.strip_prefix("input: ") {
                println!("rust: {}", run_rust(rest).0);
            }
            if let Some(rest) = line.strip_prefix("request: ") {
                let r = run_driver(&args.driver, &[rest.to_string()]);
                println!("model: {}", r[0]);
            }
        }
        return;
    }

    let (n_programs, max_depth) = match args.tier.as_str() {
        "thorough" => (12_000u64, 4u32),
        _ => (2_500u64, 3u32),
    };
    let mut rng = Rng::new(args.seed);
    let mut programs = vec![];
    for i in 0..n_programs {
        let mut g = Gen::new(rng.fork(), if i % 5 == 0 { max_depth + 1 } else { max_depth });
        let n = 3 + g.rng.below(6) as usize;
        let fault = if g.rng.chance(1, 10) { Some(g.rng.below(n as u64) as usize) } else { None };
        let catch_fault = g.rng.chance(1, 2);
        if std::env::var("C05_DEBUG").is_ok() {
            eprintln!("gen {}", i);
        }
        let prog = g.gen_program(n, fault, catch_fault);
        programs.push((prog, g.features.clone(), g.faulty));
    }
    let mut requests = vec![];
    let mut rust = vec![];
    let mut skipped = 0u64;
    let debug = std::env::var("C05_DEBUG").is_ok();
    for (prog, feats, faulty) in &programs {
        let src = prog.src();
        if debug {
            eprintln!("{}", src);
        }
        let (r, exhausted) = run_rust(&src);
        let req = format!("run {} {}", LEAN_FUEL, prog.sexp());
        for f in feats {
            rep.arm(f);
        }
        rep.outcome(if r.starts_with("ok") { "ok" } else if r.starts_with("panic") { "panic" } else if r.starts_with("parse") { "parse-error" } else { "throw" });
        if *faulty {
            rep.outcome("faulty-programs");
        }
        rep.case(&src, feats.len() >= 4);
        if exhausted {
            skipped += 1;
        }
        requests.push(req);
        rust.push((src, r, exhausted));
    }
    if debug {
        std::fs::write("/verif/out/c05.req", requests.join("\n") + "\n").unwrap();
    }
    let resp = run_driver(&args.driver, &requests);
    for i in 0..requests.len() {
        let (src, r, exhausted) = &rust[i];
        let parts: Vec<&str> = resp[i].split('\t').collect();
        if parts.len() < 2 {
            rep.judge("driver", src, r, &resp[i], &resp[i]);
            continue;
        }
        if *exhausted || parts[0].starts_with("fuel") {
            skipped += 1;
            continue;
        }
        // key: the language features of the program that matter most for triage
        let key = if r.starts_with("panic") { "panic".to_string() } else if r.starts_with("parse") { "generator-syntax".to_string() } else { "program".to_string() };
        let input = format!("{}\nrequest: {}", src, requests[i]);
        rep.judge(&key, &input, r, parts[0], parts[1]);
    }
    // shrink the first failing program: drop top-level statements (and dump entries) while the
    // disagreement persists, so that the replay is small
    if let Some(first) = rep.disagreements.first().cloned() {
        if let Some(idx) = rust.iter().position(|(src, _, _)| first.input.starts_with(src.as_str())) {
            let still_fails = |e: &Expr| -> bool {
                let (r, ex) = run_rust(&e.src());
                if ex {
                    return false;
                }
                let resp = run_driver(&args.driver, &[format!("run {} {}", LEAN_FUEL, e.sexp())]);
                let parts: Vec<&str> = resp[0].split('\t').collect();
                parts.len() >= 2 && !parts[0].starts_with("fuel") && (r != parts[0] || r != parts[1])
            };
            if let Expr::Seq(mut xs, semi) = programs[idx].0.clone() {
                let mut i = 0;
                while i + 1 < xs.len() {
                    let mut cand = xs.clone();
                    cand.remove(i);
                    if still_fails(&Expr::Seq(cand.clone(), semi)) {
                        xs = cand;
                    } else {
                        i += 1;
                    }
                }
                // the final dump list
                if let Some(Expr::List(items)) = xs.last().cloned() {
                    let mut items = items;
                    let mut j = 0;
                    while j < items.len() && items.len() > 1 {
                        let mut cand = items.clone();
                        cand.remove(j);
                        let mut prog = xs.clone();
                        *prog.last_mut().unwrap() = Expr::List(cand.clone());
                        if still_fails(&Expr::Seq(prog, semi)) {
                            items = cand;
                        } else {
                            j += 1;
                        }
                    }
                    *xs.last_mut().unwrap() = Expr::List(items);
                }
                let small = Expr::Seq(xs, semi);
                if still_fails(&small) {
                    let (r, _) = run_rust(&small.src());
                    let req = format!("run {} {}", LEAN_FUEL, small.sexp());
                    let resp = run_driver(&args.driver, &[req.clone()]);
                    let parts: Vec<&str> = resp[0].split('\t').collect();
                    let d = &mut rep.disagreements[0];
                    d.input = format!("{}\nrequest: {}", small.src(), req);
                    d.rust = r;
                    d.impl_ = parts[0].to_string();
                    d.spec = parts.get(1).unwrap_or(&"").to_string();
                    rep.notes.push("the first disagreement was shrunk by dropping top-level statements".into());
                }
            }
        }
    }
    rep.notes.push(format!("programs skipped because a step budget ran out on either side: {}", skipped));
    rep.write(&args.out);
}
