//! C10 correspondence: indexing / slicing / accessors / index writes of the real interpreter vs the
//! Impl model (NoulithModel/Impl/Index.lean) vs the Spec (Python's rule, Spec/PyIndex.lean).
//!
//! Exhaustive grid (DESIGN.md C10 *Corr*): every sequence kind x every length 0..=L x every index
//! and slice bound in [-len-3, len+3] plus the machine-word extremes and non-integer / non-numeric
//! index objects, as expression, through a variable, through the section forms and through every
//! builtin accessor; reads and writes (`x[i] = v`, `x[i] += d`, `every x[a:b] = v`, `pop`, `remove`,
//! `|..`), comparing the whole resulting value.
use num::bigint::BigInt;
use num::{Signed, Zero};
use vharness::*;

#[derive(Clone)]
struct SeqV {
    kind: &'static str,
    src: String,
    req: String,
    len: i64,
    finite: bool,
    /// elements are integers (so `+= d` is meaningful)
    ints: bool,
    /// widen the index grid by this much on both sides (elements already consumed from an
    /// advanced stream: the grid must reach -len(original)-3 .. len(original)+3)
    pad: i64,
}

#[derive(Clone)]
struct Ix {
    /// source text that is safe inside brackets / call arguments
    src: String,
    /// source text that is safe as an operand of a binary operator
    osrc: String,
    req: String,
    /// Some(v) when the index object is an integer
    int: Option<BigInt>,
}

struct Case {
    key: String,
    arm: String,
    src: String,
    req: String,
    nontrivial: bool,
}

fn pow2(k: u32) -> BigInt {
    BigInt::from(1) << (k as usize)
}

/// source text of an integer; `style` picks between a plain literal, `(0-n)`, unary minus and a
/// value held in the BigInt representation
fn int_src(v: &BigInt, style: u64) -> String {
    let plain = if v.is_negative() { format!("(0-{})", -v) } else { format!("{}", v) };
    match style % 4 {
        0 | 1 => plain,
        2 => {
            if v.is_negative() {
                format!("-{}", -v)
            } else {
                plain
            }
        }
        _ => format!("(2^70+{}-2^70)", plain),
    }
}

fn int_ix(v: BigInt, style: u64) -> Ix {
    let src = int_src(&v, style);
    let osrc = if src.starts_with('-') { int_src(&v, 0) } else { src.clone() };
    Ix { src, osrc, req: format!("{}", v), int: Some(v) }
}

fn odd_ixs() -> Vec<Ix> {
    let mk = |s: &str, r: &str| Ix { src: s.into(), osrc: s.into(), req: r.into(), int: None };
    vec![
        mk("1.5", "f:3ff8000000000000"),
        mk("1.0", "f:3ff0000000000000"),
        mk("(3/2)", "3/2"),
        mk("\"a\"", "s:61"),
        mk("null", "null"),
        mk("[0]", "[0]"),
        Ix { src: "true".into(), osrc: "true".into(), req: "1".into(), int: Some(BigInt::from(1)) },
    ]
}

fn extreme_ints(len: i64) -> Vec<BigInt> {
    let mut v = vec![];
    let m = pow2(63);
    for d in [-1i64, 0, 1] {
        v.push(&m + d);
        v.push(-&m + d);
    }
    // the overflow boundaries of `n + len`
    v.push(&m - 1 - len);
    v.push(&m - len);
    v.push(-&m + len);
    v.push(-&m + len + 1);
    v.push(pow2(64));
    v.push(-pow2(64));
    v.push(pow2(64) - 1);
    v.push(pow2(31));
    v.push(-pow2(31));
    v.push(pow2(32) + 1);
    v.push(pow2(62));
    v.push(-pow2(62));
    v.sort();
    v.dedup();
    v
}

const STR_U_QUICK: &[&str] = &["é", "aé", "éa", "€", "𝄞", "éé", "a€", "€a"];
/// boundary-byte pool: strings whose UTF-8 contains the boundary continuation bytes 0x80 / 0xBF,
/// their neighbours 0x7F / 0x81 / 0xBE, and the boundary lead bytes C2, DF, E0, EF, F0, F4 (and ED/EE
/// around the surrogate gap); every one is indexed at EVERY byte position by every access form
const STR_BOUNDARY: &[&str] = &[
    "\u{7f}",            // 7F
    "\u{80}",            // C2 80
    "\u{bf}",            // C2 BF
    "\u{c0}",            // C3 80   (À)
    "\u{100}",           // C4 80   (Ā)
    "\u{101}",           // C4 81
    "a\u{7ff}",          // 61 DF BF
    "\u{800}",           // E0 A0 80
    "\u{1000}z",         // E1 80 80 7A
    "\u{d7ff}",          // ED 9F BF
    "\u{e000}",          // EE 80 80
    "\u{ffff}",          // EF BF BF
    "\u{10000}",         // F0 90 80 80
    "\u{3ffff}",         // F0 BF BF BF
    "\u{40000}",         // F1 80 80 80
    "\u{10ffff}",        // F4 8F BF BF
    "\u{7f}\u{c0}\u{be}",  // 7F C3 80 C2 BE
];
const STR_U_MORE: &[&str] = &["é€", "a𝄞", "𝄞a", "aéb", "€€", "é𝄞é", "𝄞𝄞", "ab€cd", "xyé"];

fn finite_seqs(interp: &Interp, max_len: i64, thorough: bool, notes: &mut Vec<String>) -> Vec<SeqV> {
    let mut raw: Vec<(&'static str, String, bool, i64)> = vec![];
    let mix = ["1", "\"ab\"", "[7,8]", "null", "2.5", "B\"x\"", "V(1,2)", "[]", "\"é\""];
    for n in 0..=max_len {
        let ints: Vec<String> = (1..=n).map(|k| format!("{}", 10 * k)).collect();
        raw.push(("list", format!("[{}]", ints.join(",")), true, 0));
        if n >= 1 {
            let items: Vec<String> = (0..n as usize).map(|k| mix[k % mix.len()].to_string()).collect();
            raw.push(("listmix", format!("[{}]", items.join(",")), false, 0));
        }
        let s: String = "abcdefghijklmnopqrstuvwxyz".chars().take(n as usize).collect();
        raw.push(("str", format!("\"{}\"", s), false, 0));
        let vs: Vec<String> = (1..=n).map(|k| format!("{}", k)).collect();
        raw.push(("vec", format!("V({})", vs.join(",")), true, 0));
        if n >= 2 {
            let mut vf = vs.clone();
            vf[1] = "2.5".into();
            raw.push(("vec", format!("V({})", vf.join(",")), false, 0));
        }
        raw.push(("bytes", format!("B\"{}\"", s), true, 0));
        if n >= 1 {
            let bs: Vec<String> = (0..n).map(|k| format!("{}", 248 + k)).collect();
            raw.push(("bytes", format!("bytes([{}])", bs.join(",")), true, 0));
        }
        raw.push(("range", format!("(1 to {})", n), true, 0));
        raw.push(("rangestep", format!("(5 til {} by 2)", 5 + 2 * n), true, 0));
        raw.push(("lazymap", format!("lazy_map(1 to {}, \\x -> x * 10)", n), true, 0));
    }
    // list-backed streams (`stream(seq)`, WrappedVec) at EVERY cursor position, advanced by drop /
    // tail / uncons, including fully consumed and over-dropped ones; the grid is widened by the
    // number of consumed elements so that indices reaching before the cursor are exercised
    for n in 0..=max_len {
        let ints: Vec<String> = (1..=n).map(|k| format!("{}", 10 * k)).collect();
        let base = format!("stream([{}])", ints.join(","));
        for k in 0..=(n + 1) {
            raw.push(("wstream", format!("({} drop {})", base, k), true, k.min(n)));
        }
        if n >= 1 {
            raw.push(("wstream", format!("tail({})", base), true, 1));
            raw.push(("wstream", format!("uncons({})[1]", base), true, 1));
        }
        if n >= 2 {
            raw.push(("wstream", format!("tail(tail({}))", base), true, 2));
        }
    }
    for k in [0i64, 1, 3, 4] {
        raw.push(("wstream", format!("(stream(\"abc\") drop {})", k), false, k.min(3)));
        raw.push(("wstream", format!("(stream(B\"abc\") drop {})", k), true, k.min(3)));
        raw.push(("wstream", format!("(stream(V(1,2,3)) drop {})", k), true, k.min(3)));
    }
    for s in STR_U_QUICK.iter().chain(STR_BOUNDARY.iter()) {
        raw.push(("strU", format!("\"{}\"", s), false, 0));
    }
    if thorough {
        for s in STR_U_MORE {
            raw.push(("strU", format!("\"{}\"", s), false, 0));
        }
    }
    let mut out = vec![];
    for (kind, src, ints, pad) in raw {
        match interp.eval(&src) {
            Outcome::Ok(req) => {
                let len = match interp.eval(&format!("len({})", src)) {
                    Outcome::Ok(l) => l.parse::<i64>().unwrap_or(-1),
                    _ => -1,
                };
                if len < 0 {
                    notes.push(format!("cannot take len of {}", src));
                    continue;
                }
                out.push(SeqV { kind, src, req, len, finite: true, ints, pad });
            }
            o => notes.push(format!("cannot build sequence {}: {}", src, o.detail())),
        }
    }
    out
}

fn infinite_seqs() -> Vec<SeqV> {
    let mut v = vec![SeqV {
        kind: "repeat",
        src: "repeat(7)".into(),
        req: "rep(7)".into(),
        len: 0,
        finite: false,
        ints: true,
        pad: 0,
    }];
    for n in 1..=3i64 {
        let items: Vec<String> = (1..=n).map(|k| format!("{}", k)).collect();
        for pos in 0..n {
            let base = format!("cycle([{}])", items.join(","));
            let src = if pos == 0 { base } else { format!("{}[{}:]", base, pos) };
            v.push(SeqV {
                kind: "cycle",
                src,
                req: format!("cyc({},[{}])", pos, items.join(",")),
                len: n,
                finite: false,
                ints: true,
                pad: 0,
            });
        }
    }
    v
}

fn ix_class(s: &SeqV, i: &Ix) -> &'static str {
    match &i.int {
        None => "nonint",
        Some(v) => {
            let len = BigInt::from(s.len);
            if v.abs() >= pow2(31) {
                "extreme"
            } else if !v.is_negative() && v < &len {
                "inrange"
            } else if v.is_negative() && v >= &-len.clone() {
                "neg"
            } else {
                "oob"
            }
        }
    }
}

fn bound_src(b: &Option<Ix>) -> String {
    match b {
        None => String::new(),
        Some(i) => i.src.clone(),
    }
}
fn bound_req(b: &Option<Ix>) -> String {
    match b {
        None => "-".into(),
        Some(i) => i.req.clone(),
    }
}

/// all the source forms of `s[i]`
fn idx_forms(s: &SeqV, i: &Ix) -> Vec<(&'static str, String)> {
    vec![
        ("expr", format!("{}[{}]", s.src, i.src)),
        ("var", format!("x = {}; x[{}]", s.src, i.src)),
        ("sec1", format!("_[{}]({})", i.src, s.src)),
        ("sec2", format!("_[_]({}, {})", s.src, i.src)),
    ]
}

/// source forms of `s[a:b]`; `which` selects one of the non-expression forms
fn slice_form(s: &SeqV, a: &Option<Ix>, b: &Option<Ix>, which: u64) -> (&'static str, String) {
    let (sa, sb) = (bound_src(a), bound_src(b));
    match which % 4 {
        0 => ("var", format!("x = {}; x[{}:{}]", s.src, sa, sb)),
        1 => ("sec1", format!("_[{}:{}]({})", sa, sb, s.src)),
        2 => {
            // every present bound becomes a section slot
            let mut args = vec![s.src.clone()];
            let pa = if a.is_some() {
                args.push(sa.clone());
                "_"
            } else {
                ""
            };
            let pb = if b.is_some() {
                args.push(sb.clone());
                "_"
            } else {
                ""
            };
            ("sec2", format!("_[{}:{}]({})", pa, pb, args.join(", ")))
        }
        _ => {
            // only the upper bound is a slot
            if b.is_some() {
                ("sec3", format!("_[{}:_]({}, {})", sa, s.src, sb))
            } else {
                ("var", format!("x = {}; x[{}:{}]", s.src, sa, sb))
            }
        }
    }
}

fn push(cases: &mut Vec<Case>, op: &str, form: &str, s: &SeqV, cls: &str, src: String, req: String, nontrivial: bool) {
    cases.push(Case {
        key: format!("{}({})", op, s.kind),
        arm: format!("{}:{}:{}:{}", op, s.kind, form, cls),
        src,
        req,
        nontrivial,
    });
}

fn good_value(s: &SeqV) -> (&'static str, &'static str) {
    match s.kind {
        "str" | "strU" => ("\"z\"", "s:7a"),
        "bytes" => ("65", "65"),
        _ => ("99", "99"),
    }
}
fn bad_values(s: &SeqV) -> Vec<(&'static str, &'static str)> {
    match s.kind {
        "str" | "strU" => vec![("\"zz\"", "s:7a7a"), ("\"é\"", "s:c3a9"), ("5", "5"), ("\"\"", "s:")],
        "bytes" => vec![("256", "256"), ("(0-1)", "-1"), ("\"a\"", "s:61"), ("1.5", "f:3ff8000000000000")],
        "vec" => vec![("\"a\"", "s:61"), ("null", "null"), ("2.5", "f:4004000000000000")],
        _ => vec![("\"a\"", "s:61"), ("null", "null"), ("[1]", "[1]")],
    }
}

fn gen_for_seq(cases: &mut Vec<Case>, s: &SeqV, rng: &mut Rng, slice_extra_forms: bool) {
    let len = s.len;
    let mut ints: Vec<BigInt> = ((-len - 3 - s.pad)..=(len + 3 + s.pad)).map(BigInt::from).collect();
    let grid_n = ints.len();
    ints.extend(extreme_ints(len));
    let mut ixs: Vec<Ix> = ints.iter().enumerate().map(|(k, v)| int_ix(v.clone(), (k as u64) + rng.below(2))).collect();
    // every grid index also once in the BigInt representation
    for v in ints.iter().take(grid_n) {
        if rng.chance(1, 3) {
            ixs.push(int_ix(v.clone(), 3));
        }
    }
    ixs.extend(odd_ixs());

    // ---- reads: s[i]
    for i in &ixs {
        let cls = ix_class(s, i);
        let req = format!("idx {} {}", s.req, i.req);
        for (form, src) in idx_forms(s, i) {
            push(cases, "idx", form, s, cls, src, req.clone(), !(cls == "inrange" && form == "expr"));
        }
        for name in ["!!", "index", "!?", "!%", "index?"] {
            let src = if name == "index" || name == "index?" {
                format!("{}({}, {})", name, s.src, i.src)
            } else {
                format!("{} {} {}", s.src, name, i.osrc)
            };
            push(cases, &format!("a2:{}", name), "call", s, cls, src, format!("a2 {} {} {}", name, s.req, i.req), true);
        }
        // take / drop n
        for name in ["take", "drop"] {
            let src = if rng.chance(1, 2) {
                format!("{}({}, {})", name, s.src, i.src)
            } else {
                format!("{} {} {}", s.src, name, i.osrc)
            };
            if !s.finite && !bounded_ok(s, &Some(i.clone()), name == "take") {
                continue;
            }
            push(cases, &format!("a2:{}", name), "call", s, cls, src, format!("a2 {} {} {}", name, s.req, i.req), true);
        }
    }
    // ---- one-argument accessors
    for name in ["first", "second", "third", "last", "tail", "butlast", "uncons", "unsnoc", "only"] {
        push(cases, &format!("a1:{}", name), "call", s, "-", format!("{}({})", name, s.src), format!("a1 {} {}", name, s.req), true);
    }

    // ---- slices
    let mut bounds: Vec<Option<Ix>> = vec![None];
    for (k, v) in ints.iter().take(grid_n).enumerate() {
        bounds.push(Some(int_ix(v.clone(), k as u64)));
    }
    let ext: Vec<Option<Ix>> = ints.iter().skip(grid_n).enumerate().map(|(k, v)| Some(int_ix(v.clone(), k as u64))).collect();
    let odd: Vec<Option<Ix>> = odd_ixs().into_iter().map(Some).collect();
    let partners: Vec<Option<Ix>> = vec![
        None,
        Some(int_ix(BigInt::zero(), 0)),
        Some(int_ix(BigInt::from(1), 0)),
        Some(int_ix(BigInt::from(-1), 0)),
        Some(int_ix(BigInt::from(len), 0)),
        Some(int_ix(pow2(63) - 1, 0)),
        Some(int_ix(-pow2(63), 0)),
        Some(int_ix(pow2(63), 0)),
    ];
    let mut pairs: Vec<(Option<Ix>, Option<Ix>)> = vec![];
    for a in &bounds {
        for b in &bounds {
            pairs.push((a.clone(), b.clone()));
        }
    }
    for e in ext.iter().chain(odd.iter()) {
        for p in &partners {
            pairs.push((e.clone(), p.clone()));
            pairs.push((p.clone(), e.clone()));
        }
    }
    for (a, b) in &pairs {
        if !s.finite && !slice_ok_infinite(s, a, b) {
            continue;
        }
        let cls = slice_class(s, a, b);
        let req = format!("slice {} {} {}", s.req, bound_req(a), bound_req(b));
        push(cases, "slice", "expr", s, cls, format!("{}[{}:{}]", s.src, bound_src(a), bound_src(b)), req.clone(), true);
        if slice_extra_forms {
            for w in 0..4 {
                let (form, src) = slice_form(s, a, b, w);
                push(cases, "slice", form, s, cls, src, req.clone(), true);
            }
        } else {
            let (form, src) = slice_form(s, a, b, rng.next());
            push(cases, "slice", form, s, cls, src, req.clone(), true);
        }
        // writes through a slice: every x[a:b] = v, remove x[a:b]
        if s.finite && (s.kind == "list" || s.kind == "listmix" || s.kind == "range" || rng.chance(1, 12)) {
            let (v, vr) = good_value(s);
            push(
                cases,
                "every",
                "stmt",
                s,
                cls,
                format!("x = {}; every x[{}:{}] = {}; x", s.src, bound_src(a), bound_src(b), v),
                format!("every {} {} r={};{}", s.req, vr, bound_req(a), bound_req(b)),
                true,
            );
            push(
                cases,
                "rms",
                "stmt",
                s,
                cls,
                format!("x = {}; r = remove x[{}:{}]; [r, x]", s.src, bound_src(a), bound_src(b)),
                format!("rms {} {} {}", s.req, bound_req(a), bound_req(b)),
                true,
            );
            // plain slice assignment is not implemented: must raise (F13), never panic
            if rng.chance(1, 4) {
                push(
                    cases,
                    "set",
                    "slice",
                    s,
                    cls,
                    format!("x = {}; x[{}:{}] = {}; x", s.src, bound_src(a), bound_src(b), v),
                    format!("set {} {} r={};{}", s.req, vr, bound_req(a), bound_req(b)),
                    true,
                );
            }
        }
    }
    if !s.finite {
        return;
    }

    // ---- writes at an index
    for i in &ixs {
        let cls = ix_class(s, i);
        let (v, vr) = good_value(s);
        push(
            cases,
            "set",
            "stmt",
            s,
            cls,
            format!("x = {}; x[{}] = {}; x", s.src, i.src, v),
            format!("set {} {} i={}", s.req, vr, i.req),
            true,
        );
        if cls == "inrange" || cls == "neg" || rng.chance(1, 6) {
            for (v, vr) in bad_values(s) {
                push(
                    cases,
                    "set",
                    "badval",
                    s,
                    cls,
                    format!("x = {}; x[{}] = {}; x", s.src, i.src, v),
                    format!("set {} {} i={}", s.req, vr, i.req),
                    true,
                );
            }
        }
        if s.ints {
            push(
                cases,
                "addat",
                "stmt",
                s,
                cls,
                format!("x = {}; x[{}] += 5; x", s.src, i.src),
                format!("addat {} {} 5", s.req, i.req),
                true,
            );
        }
        push(
            cases,
            "rmi",
            "stmt",
            s,
            cls,
            format!("x = {}; r = remove x[{}]; [r, x]", s.src, i.src),
            format!("rmi {} {}", s.req, i.req),
            true,
        );
        push(
            cases,
            "upd",
            "call",
            s,
            cls,
            format!("{} |.. [{}, 99]", s.src, i.osrc),
            format!("upd {} {} 99", s.req, i.req),
            true,
        );
        // swap x[i], y / swap y, x[i]: both reads happen first, then the two writes
        let (gv, gr) = good_value(s);
        let mut yvals = vec![(gv, gr)];
        if cls == "inrange" || cls == "neg" || rng.chance(1, 8) {
            yvals.extend(bad_values(s).into_iter().take(2));
        }
        for (yv, yr) in yvals {
            push(
                cases,
                "tswap",
                "stmt",
                s,
                cls,
                format!("x = {}; y = {}; r = try (swap x[{}], y; 1) catch _ -> 0; [r, x, y]", s.src, yv, i.src),
                format!("tswap {} {} {}", s.req, i.req, yr),
                true,
            );
            push(
                cases,
                "tswap2",
                "stmt",
                s,
                cls,
                format!("x = {}; y = {}; r = try (swap y, x[{}]; 1) catch _ -> 0; [r, x, y]", s.src, yv, i.src),
                format!("tswap2 {} {} {}", s.req, i.req, yr),
                true,
            );
        }
    }
    push(cases, "pop", "stmt", s, "-", format!("x = {}; r = pop x; [r, x]", s.src), format!("pop {}", s.req), true);
}

/// infinite streams: keep away from bounds whose result would be astronomically large or whose
/// evaluation walks 2^31+ elements
fn small(b: &Option<Ix>) -> bool {
    match b {
        None => true,
        Some(i) => match &i.int {
            None => true,
            Some(v) => v.abs() < BigInt::from(64) || v.abs() > pow2(63),
        },
    }
}
fn is_min(b: &Option<Ix>) -> bool {
    matches!(b, Some(Ix { int: Some(v), .. }) if *v == -pow2(63))
}
fn slice_ok_infinite(s: &SeqV, a: &Option<Ix>, b: &Option<Ix>) -> bool {
    if s.kind == "repeat" {
        // i64::MIN as a bound is allowed together with a small non-negative / absent partner that
        // makes the result empty or infinite (no allocation)
        if is_min(a) {
            return matches!(b, Some(Ix { int: Some(v), .. }) if !v.is_negative() && *v < BigInt::from(64));
        }
        return small(a) && small(b) && !is_min(b);
    }
    small(a) && small(b)
}
fn bounded_ok(s: &SeqV, i: &Option<Ix>, is_take: bool) -> bool {
    if is_take {
        slice_ok_infinite(s, &None, i)
    } else {
        slice_ok_infinite(s, i, &None)
    }
}

fn slice_class(s: &SeqV, a: &Option<Ix>, b: &Option<Ix>) -> &'static str {
    let c = |x: &Option<Ix>| match x {
        None => "absent",
        Some(i) => ix_class(s, i),
    };
    let (ca, cb) = (c(a), c(b));
    if ca == "nonint" || cb == "nonint" {
        "nonint"
    } else if ca == "extreme" || cb == "extreme" {
        "extreme"
    } else if ca == "absent" || cb == "absent" {
        "absent"
    } else if ca == "oob" || cb == "oob" {
        "oob"
    } else if ca == "neg" || cb == "neg" {
        "neg"
    } else {
        "inrange"
    }
}

/// nested paths: x[i][j] = v, every x[a:b][j] = v, x[i][j] += d
fn gen_nested(cases: &mut Vec<Case>, rng: &mut Rng, nsrc: &str, nreq: &str, vs: &str, vr: &str) {
    let s = SeqV {
        kind: "nested",
        src: nsrc.into(),
        req: nreq.into(),
        len: 4,
        finite: true,
        ints: true,
        pad: 0,
    };
    let mut vals: Vec<BigInt> = (-6..=6).map(BigInt::from).collect();
    vals.push(pow2(63) - 1);
    vals.push(-pow2(63));
    vals.push(pow2(63));
    for (k, i) in vals.iter().enumerate() {
        for (m, j) in vals.iter().enumerate() {
            let (i, j) = (int_ix(i.clone(), k as u64), int_ix(j.clone(), m as u64));
            let cls = ix_class(&s, &i);
            push(
                cases,
                "set",
                "path",
                &s,
                cls,
                format!("x = {}; x[{}][{}] = {}; x", s.src, i.src, j.src, vs),
                format!("set {} {} i={} i={}", s.req, vr, i.req, j.req),
                true,
            );
            push(
                cases,
                "rmip",
                "path",
                &s,
                cls,
                format!("x = {}; r = remove x[{}][{}]; [r, x]", s.src, i.src, j.src),
                format!("rmip {} {} i={}", s.req, j.req, i.req),
                true,
            );
            // x[i][j] += d and swap x[i][j], y: read through the path, then write through it
            push(
                cases,
                "taddatp",
                "path",
                &s,
                cls,
                format!("x = {}; y = x; r = try (x[{}][{}] += 5; 1) catch _ -> 0; [r, x, y]", s.src, i.src, j.src),
                format!("taddatp {} 5 i={} i={}", s.req, i.req, j.req),
                true,
            );
            push(
                cases,
                "tswapp",
                "path",
                &s,
                cls,
                format!("x = {}; y = {}; r = try (swap x[{}][{}], y; 1) catch _ -> 0; [r, x, y]", s.src, vs, i.src, j.src),
                format!("tswapp {} {} i={} i={}", s.req, vr, i.req, j.req),
                true,
            );
            if m == 0 {
                push(
                    cases,
                    "popp",
                    "path",
                    &s,
                    cls,
                    format!("x = {}; r = pop x[{}]; [r, x]", s.src, i.src),
                    format!("popp {} i={}", s.req, i.req),
                    true,
                );
            }
            if rng.chance(1, 2) {
                push(
                    cases,
                    "idx2",
                    "path",
                    &s,
                    cls,
                    format!("x = {}; x[{}][{}]", s.src, i.src, j.src),
                    format!("idx2 {} {} {}", s.req, i.req, j.req),
                    true,
                );
            }
            if rng.chance(1, 2) {
                push(
                    cases,
                    "every",
                    "path",
                    &s,
                    cls,
                    format!("x = {}; every x[{}:][{}] = {}; x", s.src, i.src, j.src, vs),
                    format!("every {} {} r={};- i={}", s.req, vr, i.req, j.req),
                    true,
                );
                push(
                    cases,
                    "every",
                    "path2",
                    &s,
                    cls,
                    format!("x = {}; every x[{}][:{}] = {}; x", s.src, i.src, j.src, vs),
                    format!("every {} {} i={} r=-;{}", s.req, vr, i.req, j.req),
                    true,
                );
            }
        }
    }
}

/// three-level paths x[i][j][k] = v / += d on a value whose OUTER levels may be streams
fn gen_nested3(cases: &mut Vec<Case>, nsrc: &str, nreq: &str) {
    let s = SeqV { kind: "nested3", src: nsrc.into(), req: nreq.into(), len: 2, finite: true, ints: true, pad: 0 };
    let vals: Vec<BigInt> = (-3..=3).map(BigInt::from).collect();
    for (a, i) in vals.iter().enumerate() {
        for (b, j) in vals.iter().enumerate() {
            for (c, k) in vals.iter().enumerate() {
                let (i, j, k) = (int_ix(i.clone(), a as u64), int_ix(j.clone(), b as u64), int_ix(k.clone(), c as u64));
                let cls = ix_class(&s, &i);
                push(
                    cases,
                    "set",
                    "path3",
                    &s,
                    cls,
                    format!("x = {}; x[{}][{}][{}] = 9; x", s.src, i.src, j.src, k.src),
                    format!("set {} 9 i={} i={} i={}", s.req, i.req, j.req, k.req),
                    true,
                );
                push(
                    cases,
                    "taddatp",
                    "path3",
                    &s,
                    cls,
                    format!("x = {}; y = x; r = try (x[{}][{}][{}] += 5; 1) catch _ -> 0; [r, x, y]", s.src, i.src, j.src, k.src),
                    format!("taddatp {} 5 i={} i={} i={}", s.req, i.req, j.req, k.req),
                    true,
                );
                if c == 0 {
                    push(
                        cases,
                        "every",
                        "path3",
                        &s,
                        cls,
                        format!("x = {}; every x[{}:][{}][:] = 9; x", s.src, i.src, j.src),
                        format!("every {} 9 r={};- i={} r=-;-", s.req, i.req, j.req),
                        true,
                    );
                }
            }
        }
    }
}

fn random_long(cases: &mut Vec<Case>, interp: &Interp, rng: &mut Rng, n_seqs: u64, notes: &mut Vec<String>) {
    for _ in 0..n_seqs {
        let n = rng.range(9, 260);
        let (kind, src, ints): (&'static str, String, bool) = match rng.below(6) {
            0 => ("list", format!("[{}]", (0..n).map(|k| format!("{}", k * 3 + 1)).collect::<Vec<_>>().join(",")), true),
            1 => {
                let s: String = (0..n).map(|_| *rng.pick(&['a', 'b', 'é', '€', 'z', '𝄞', 'q'])).collect();
                ("strU", format!("\"{}\"", s), false)
            }
            2 => ("vec", format!("V({})", (0..n).map(|k| format!("{}", k)).collect::<Vec<_>>().join(",")), true),
            3 => ("bytes", format!("bytes([{}])", (0..n).map(|k| format!("{}", (k * 7) % 256)).collect::<Vec<_>>().join(",")), true),
            4 => ("range", format!("(1 to {})", n), true),
            _ => ("lazymap", format!("lazy_map(1 to {}, \\x -> x * 10)", n), true),
        };
        let req = match interp.eval(&src) {
            Outcome::Ok(r) => r,
            o => {
                notes.push(format!("cannot build {}: {}", src, o.detail()));
                continue;
            }
        };
        let len = match interp.eval(&format!("len({})", src)) {
            Outcome::Ok(l) => l.parse::<i64>().unwrap_or(0),
            _ => 0,
        };
        let s = SeqV { kind, src, req, len, finite: true, ints, pad: 0 };
        let pick = |rng: &mut Rng| -> Ix {
            let v = match rng.below(7) {
                0 => BigInt::from(rng.range(-len - 3, len + 3)),
                1 => BigInt::from(len + rng.range(-2, 2)),
                2 => BigInt::from(-len + rng.range(-2, 2)),
                3 => BigInt::from(rng.range(-3, 3)),
                4 => rng.pick(&extreme_ints(len)).clone(),
                _ => BigInt::from(rng.range(-len - 3, len + 3)),
            };
            int_ix(v, rng.below(4))
        };
        for _ in 0..14 {
            let i = pick(rng);
            let cls = ix_class(&s, &i);
            push(cases, "idx", "expr", &s, cls, format!("{}[{}]", s.src, i.src), format!("idx {} {}", s.req, i.req), true);
            let (v, vr) = good_value(&s);
            push(
                cases,
                "set",
                "stmt",
                &s,
                cls,
                format!("x = {}; x[{}] = {}; x", s.src, i.src, v),
                format!("set {} {} i={}", s.req, vr, i.req),
                true,
            );
            let (a, b) = (
                if rng.chance(1, 6) { None } else { Some(pick(rng)) },
                if rng.chance(1, 6) { None } else { Some(pick(rng)) },
            );
            let scls = slice_class(&s, &a, &b);
            push(
                cases,
                "slice",
                "expr",
                &s,
                scls,
                format!("{}[{}:{}]", s.src, bound_src(&a), bound_src(&b)),
                format!("slice {} {} {}", s.req, bound_req(&a), bound_req(&b)),
                true,
            );
            if s.kind == "list" || s.kind == "range" {
                push(
                    cases,
                    "rms",
                    "stmt",
                    &s,
                    scls,
                    format!("x = {}; r = remove x[{}:{}]; [r, x]", s.src, bound_src(&a), bound_src(&b)),
                    format!("rms {} {} {}", s.req, bound_req(&a), bound_req(&b)),
                    true,
                );
                push(
                    cases,
                    "rmi",
                    "stmt",
                    &s,
                    cls,
                    format!("x = {}; r = remove x[{}]; [r, x]", s.src, i.src),
                    format!("rmi {} {}", s.req, i.req),
                    true,
                );
            }
        }
        for name in ["first", "second", "third", "last", "tail", "butlast", "uncons", "unsnoc", "only"] {
            push(cases, &format!("a1:{}", name), "call", &s, "-", format!("{}({})", name, s.src), format!("a1 {} {}", name, s.req), true);
        }
    }
}

/// For every write case `x = S; <stmt>; <result>` derive the state-observing form: the write runs
/// under try/catch, `y` is an alias of the sequence taken before it, and the program returns
/// `[r, x, y]` (r = 1 / [1, result] on success, 0 when the write raised) - the state after a FAILED
/// write is compared with the model like the state after a successful one.
fn derive_try_forms(cases: &mut Vec<Case>) {
    let mut extra = vec![];
    for c in cases.iter() {
        let (op, rest) = match c.req.split_once(' ') {
            Some(x) => x,
            None => continue,
        };
        let top = match op {
            "set" => "tset",
            "every" => "tevery",
            "addat" => "taddat",
            "rmi" | "rmip" => "trmip",
            "pop" | "popp" => "tpopp",
            _ => continue,
        };
        let parts: Vec<&str> = c.src.split("; ").collect();
        if parts.len() != 3 || !parts[0].starts_with("x = ") {
            continue;
        }
        let stmt = parts[1];
        let rstmt = if let Some(e) = stmt.strip_prefix("r = ") {
            format!("r = try [1, {}] catch _ -> 0", e)
        } else {
            format!("r = try ({}; 1) catch _ -> 0", stmt)
        };
        let kind = c.key.split_once('(').map(|x| x.1).unwrap_or("corpus)");
        extra.push(Case {
            key: format!("{}({}", top, kind),
            arm: format!("t{}", c.arm),
            src: format!("{}; y = x; {}; [r, x, y]", parts[0], rstmt),
            req: format!("{} {}", top, rest),
            nontrivial: true,
        });
    }
    cases.extend(extra);
}

const PRELUDE: &str = "x := null; r := null; y := null";

fn main() {
    let args = parse_args();
    install_quiet_panic_hook();
    let mut rep = Report::new("C10", &args);
    let interp = Interp::new();
    let _ = interp.eval(PRELUDE);

    if let Some(path) = &args.replay {
        let text = std::fs::read_to_string(path).expect("replay file");
        for line in text.lines() {
            if let Some(rest) = line.strip_prefix("input: ") {
                println!("rust: {}", interp.eval(rest).detail());
            }
            if let Some(rest) = line.strip_prefix("request: ") {
                let r = run_driver(&args.driver, &[rest.to_string()]);
                println!("model (impl <TAB> spec): {}", r[0]);
            }
        }
        return;
    }

    let thorough = args.tier == "thorough";
    let max_len: i64 = if thorough { 8 } else { 4 };
    rep.rule = format!(
        "exhaustive grid: kinds list, mixed list, ASCII string, non-ASCII strings, vector, bytes, Range / stepped Range / \
         lazy_map streams (lengths 0..={}), repeat and cycle (every start position); every index and slice bound in \
         [-len-3, len+3] (each also produced in BigInt representation) + extremes (+-2^63, +-2^63+-1, the n+len overflow \
         boundaries 2^63-1-len / 2^63-len / -2^63+len, +-2^64, 2^64-1, +-2^31, 2^32+1, +-2^62) + 1.5, 1.0, 3/2, \"a\", \
         null, [0], true; forms: s[i], x[i], _[i](s), _[_](s,i), !!, index, !?, !%, take, drop, first..only, s[a:b] in \
         expression/variable/three section forms, x[i] = v (good and ill-typed values), x[i] += d, every x[a:b] = v, \
         remove x[i], remove x[a:b], pop, |.., nested paths x[i][j]; thorough adds random sequences of length 9..260. \
         A case is non-trivial unless it is a plain in-range s[i]; distinct = distinct source programs",
        max_len
    );
    let mut rng = Rng::new(args.seed);
    let mut notes = vec![];
    let mut cases: Vec<Case> = vec![];
    // corpus first: minimised past failures (input / request pairs)
    let corpus_dir = std::path::Path::new(&args.known).parent().map(|p| p.join("corpus/C10"));
    if let Some(dir) = corpus_dir {
        let mut files: Vec<_> = std::fs::read_dir(&dir).map(|d| d.filter_map(|e| e.ok()).map(|e| e.path()).collect()).unwrap_or_default();
        files.sort();
        for f in files {
            let text = std::fs::read_to_string(&f).unwrap_or_default();
            let mut input: Option<String> = None;
            for line in text.lines() {
                if let Some(rest) = line.strip_prefix("input: ") {
                    input = Some(rest.to_string());
                } else if let Some(rest) = line.strip_prefix("request: ") {
                    if let Some(src) = input.take() {
                        cases.push(Case { key: "corpus".into(), arm: "corpus".into(), src, req: rest.to_string(), nontrivial: true });
                    }
                }
            }
        }
    }
    let mut seqs = finite_seqs(&interp, max_len, thorough, &mut notes);
    seqs.extend(infinite_seqs());
    for s in &seqs {
        gen_for_seq(&mut cases, s, &mut rng, thorough);
    }
    gen_nested(&mut cases, &mut rng, "[[10,20],[30],[],[40,50,60]]", "[[10,20],[30],[],[40,50,60]]", "9", "9");
    // strings / bytes / vectors / a stream nested in a list: the failing write happens one level down
    match interp.eval("[\"abc\",\"d\u{e9}\",B\"xy\",V(1,2)]") {
        Outcome::Ok(req) => {
            gen_nested(&mut cases, &mut rng, "[\"abc\",\"d\u{e9}\",B\"xy\",V(1,2)]", &req, "\"z\"", "s:7a");
            gen_nested(&mut cases, &mut rng, "[\"abc\",\"d\u{e9}\",B\"xy\",V(1,2)]", &req, "65", "65");
        }
        o => notes.push(format!("cannot build nested mixed sequence: {}", o.detail())),
    }
    // the OUTER value is a stream of sequences (set_index / modify_existing_index must force it
    // whatever the number of index steps that follow), and streams nested inside lists
    for src in [
        "stream([[10,20],[30],[],[40,50,60]])",
        "(stream([[1],[10,20],[30],[],[40,50,60]]) drop 1)",
        "lazy_map(1 to 3, \\k -> [k, k*10])",
        "([1,2] ^^ 2)",
        "permutations([1,2,3])",
        "[1 to 3, [5], (stream([7,8,9]) drop 1), lazy_map(1 to 2, \\k -> k * 3)]",
        "stream([1 to 2, stream([5,6]), [7]])",
    ] {
        match interp.eval(src) {
            Outcome::Ok(req) => gen_nested(&mut cases, &mut rng, src, &req, "9", "9"),
            o => notes.push(format!("cannot build {}: {}", src, o.detail())),
        }
    }
    for src in [
        "stream([[[1,2],[3]],[[4]]])",
        "[stream([[1,2],[3]]), [[4]]]",
        "(stream([0, stream([[1,2],[3]]), [[4]]]) drop 1)",
        "lazy_map(1 to 2, \\k -> [[k, k+1], [k*10]])",
    ] {
        match interp.eval(src) {
            Outcome::Ok(req) => gen_nested3(&mut cases, src, &req),
            o => notes.push(format!("cannot build {}: {}", src, o.detail())),
        }
    }
    if thorough {
        random_long(&mut cases, &interp, &mut rng, 5000, &mut notes);
    } else {
        random_long(&mut cases, &interp, &mut rng, 60, &mut notes);
    }
    derive_try_forms(&mut cases);
    rep.notes.extend(notes);

    // run the real interpreter
    let mut rust_out = Vec::with_capacity(cases.len());
    for c in &cases {
        let out = interp.eval(&c.src);
        rep.case(&c.src, c.nontrivial);
        rep.arm(&c.arm);
        rep.outcome(match &out {
            Outcome::Ok(_) => "ok",
            Outcome::Throw(_) => "throw",
            Outcome::Panic(_) => "panic",
            _ => "other",
        });
        rust_out.push(out);
    }
    // the model
    let requests: Vec<String> = cases.iter().map(|c| c.req.clone()).collect();
    let resp = run_driver(&args.driver, &requests);
    let mut charwise = 0u64;
    let mut corrupted = 0u64;
    let mut charwise_by_key: std::collections::HashMap<String, u64> = Default::default();
    for (i, c) in cases.iter().enumerate() {
        let rust = rust_out[i].class();
        let full_input = format!("{}\nrequest: {}", c.src, c.req);
        let parts: Vec<&str> = resp[i].split('\t').collect();
        if parts.len() < 2 {
            rep.judge("driver", &full_input, &rust, &resp[i], &resp[i]);
            continue;
        }
        // the one recorded deviation: uncons / unsnoc of a string split off a whole char, not a byte
        let mut key = c.key.clone();
        if (key == "a1:uncons(strU)" || key == "a1:unsnoc(strU)") && rust == parts[0] && rust != parts[1] {
            key.push_str("#charwise");
            // recorded deviation: keep a few instances, count the rest (the report caps disagreements)
            charwise += 1;
            let n = charwise_by_key.entry(key.clone()).or_insert(0u64);
            *n += 1;
            if *n > 4 {
                continue;
            }
        }
        // the other recorded deviation: the string arm of set_index leaves a lossy repair of the
        // string behind when the written byte breaks UTF-8 ("string corrupted"); the model does
        // not compute the repair, it only says that it happens
        if let Some(pos) = parts[0].find(",corrupted,") {
            let (head, tail) = (&parts[0][..pos + 1], &parts[0][pos + ",corrupted".len()..]);
            if rust.starts_with(head) && rust.ends_with(tail) && rust != parts[1] {
                key = "write#corrupted".to_string();
                corrupted += 1;
                let n = charwise_by_key.entry(key.clone()).or_insert(0u64);
                *n += 1;
                if *n <= 3 {
                    rep.judge(&key, &full_input, &rust, &rust, parts[1]);
                }
                continue;
            }
        }
        if !rep.judge(&key, &full_input, &rust, parts[0], parts[1]) && rep.fidelity.len() < 10 {
            if let Outcome::Panic(m) | Outcome::Throw(m) = &rust_out[i] {
                rep.fidelity.push(format!("{} -> {}", c.src, m.lines().next().unwrap_or("")));
            }
        }
    }
    rep.notes.push(format!("failed string byte assignment that breaks UTF-8 leaves a lossy repair behind (recorded deviation): {} cases", corrupted));
    rep.notes.push(format!("uncons/unsnoc of a non-ASCII string, char-wise instead of byte-wise (recorded deviation): {} cases", charwise));
    rep.write(&args.out);
}
