//! C12 correspondence: patterns, destructuring, switch and runtime type annotations.
//! The real interpreter vs the Impl model (`Impl/Pattern.lean`, `Impl/PatternStmt.lean`) vs the Spec
//! (`Spec/Match.lean`, `Spec/TypedStore.lean`).
//!
//! Patterns and values are generated as ASTs; each AST is printed twice, once as Noulith source
//! (run in-process) and once in the line protocol of `driver_c12`.
use vharness::*;

const K: usize = 5; // pool of names x0..x4
const CAP: usize = 4;
const UNBOUND: &str = "<unbound>";

// ---------------------------------------------------------------------------------------------
// types
#[derive(Clone, Debug, PartialEq)]
enum Ty {
    Null,
    Int,
    Rational,
    Float,
    Complex,
    Number,
    Str,
    List,
    Dict,
    Vector,
    Bytes,
    Stream,
    Func,
    Type,
    Any,
    StructInstance,
    Struct(usize),
    Sat(usize),
}
const SAT_SRC: &[&str] = &[
    "satisfying(\\x -> x > 0)",
    "satisfying(\\x -> len(x) == 2)",
    "satisfying(\\x -> 1)",
    "satisfying(\\x -> 0)",
    "satisfying(\\x -> x is int)",
    "satisfying(\\x -> throw \"no\")",
    "satisfying(\\x -> (x is list and len(x) > 0 and x[0] is int))",
    "satisfying(\\x -> (x is list and sum(x) < 10))",
    "satisfying(\\x -> (x is list and all(x map \\e -> e is int)))",
    "satisfying(\\x -> (x is list and len(x) > 0 and x[0] is list and len(x[0]) > 0 and x[0][0] is int))",
];
const STRUCT_ARITY: &[usize] = &[1, 2, 3];
const PRELUDE: &str = "struct S0(f0a); struct S1(f1a, f1b); struct S2(f2a, f2b, f2c = 9);";

impl Ty {
    fn name(&self) -> String {
        match self {
            Ty::Null => "nulltype".into(),
            Ty::Int => "int".into(),
            Ty::Rational => "rational".into(),
            Ty::Float => "float".into(),
            Ty::Complex => "complex".into(),
            Ty::Number => "number".into(),
            Ty::Str => "str".into(),
            Ty::List => "list".into(),
            Ty::Dict => "dict".into(),
            Ty::Vector => "vector".into(),
            Ty::Bytes => "bytes".into(),
            Ty::Stream => "stream".into(),
            Ty::Func => "func".into(),
            Ty::Type => "type".into(),
            Ty::Any => "anything".into(),
            Ty::StructInstance => "struct_instance".into(),
            Ty::Struct(i) => format!("S{}", i),
            Ty::Sat(i) => format!("sat{}", i),
        }
    }
    fn src(&self) -> String {
        match self {
            Ty::StructInstance => "type(S0(0))".into(),
            Ty::Sat(i) => SAT_SRC[*i].into(),
            t => t.name(),
        }
    }
}
fn all_types() -> Vec<Ty> {
    let mut v = vec![
        Ty::Null,
        Ty::Int,
        Ty::Rational,
        Ty::Float,
        Ty::Complex,
        Ty::Number,
        Ty::Str,
        Ty::List,
        Ty::Dict,
        Ty::Vector,
        Ty::Bytes,
        Ty::Stream,
        Ty::Func,
        Ty::Type,
        Ty::Any,
        Ty::StructInstance,
    ];
    for i in 0..3 {
        v.push(Ty::Struct(i));
    }
    for i in 0..SAT_SRC.len() {
        v.push(Ty::Sat(i));
    }
    v
}
fn gen_ty(rng: &mut Rng) -> Ty {
    // (`sum` over float / complex elements is float arithmetic, outside the model: the sum type is
    // used in the histories and the `is` matrix only, where the elements are exact)
    let all: Vec<Ty> = all_types().into_iter().filter(|t| *t != Ty::Sat(7)).collect();
    if rng.chance(1, 3) {
        Ty::Any
    } else {
        rng.pick(&all).clone()
    }
}

// ---------------------------------------------------------------------------------------------
// values
#[derive(Clone, Debug, PartialEq)]
enum V {
    Null,
    Int(i128),
    Rat(i64, i64), // as written: num/den, den > 0, not necessarily lowest terms (the value is)
    Float(f64),
    Complex(f64, f64),
    Str(String),
    List(Vec<V>),
    Dict(Vec<(V, V)>), // at most one entry (iteration order of larger dicts is unspecified)
    Vector(Vec<V>),
    Bytes(Vec<u8>),
    Range(i64, i64), // finite stream `a to b`
    /// a list-backed stream `stream(xs)` of which the first k items have been consumed (by a slice, a
    /// `.+` pattern or `drop`): it denotes the stream of the remaining items
    Adv(Vec<V>, usize, u8),
    StreamInf,
    Func(usize),
    Type(Ty),
    Inst(usize, Vec<V>),
}
fn gcd(a: i64, b: i64) -> i64 {
    if b == 0 {
        a.abs()
    } else {
        gcd(b, a % b)
    }
}
fn fsrc(f: f64) -> String {
    if f.is_nan() {
        "(0.0/0.0)".into()
    } else if f.is_infinite() {
        if f > 0.0 {
            "(1.0/0.0)".into()
        } else {
            "(-(1.0/0.0))".into()
        }
    } else if f.is_sign_negative() {
        format!("(-{:?})", -f)
    } else {
        format!("{:?}", f)
    }
}
fn str_src(s: &str) -> String {
    let mut o = String::from("\"");
    for c in s.chars() {
        match c {
            '"' => o.push_str("\\\""),
            '\\' => o.push_str("\\\\"),
            '\n' => o.push_str("\\n"),
            c => o.push(c),
        }
    }
    o.push('"');
    o
}
const FUNC_SRC: &[&str] = &["(\\z -> z)", "print", "max"];
impl V {
    fn src(&self) -> String {
        match self {
            V::Null => "null".into(),
            V::Int(n) => {
                if *n < 0 {
                    format!("(-{})", -n)
                } else {
                    format!("{}", n)
                }
            }
            V::Rat(n, d) => {
                if *n < 0 {
                    format!("((-{})/{})", -n, d)
                } else {
                    format!("({}/{})", n, d)
                }
            }
            V::Float(f) => fsrc(*f),
            V::Complex(re, im) => format!("({} + {} * 1i)", fsrc(*re), fsrc(*im)),
            V::Str(s) => str_src(s),
            V::List(xs) => format!("[{}]", xs.iter().map(|x| x.src()).collect::<Vec<_>>().join(", ")),
            V::Dict(kvs) => format!(
                "{{{}}}",
                kvs.iter().map(|(k, v)| format!("{}: {}", k.src(), v.src())).collect::<Vec<_>>().join(", ")
            ),
            V::Vector(xs) => format!("vector([{}])", xs.iter().map(|x| x.src()).collect::<Vec<_>>().join(", ")),
            V::Bytes(bs) => format!("bytes([{}])", bs.iter().map(|b| b.to_string()).collect::<Vec<_>>().join(", ")),
            V::Range(a, b) => format!("({} to {})", V::Int(*a as i128).src(), V::Int(*b as i128).src()),
            V::StreamInf => "repeat(1)".into(),
            V::Adv(xs, k, form) => {
                let base = format!("stream([{}])", xs.iter().map(|x| x.src()).collect::<Vec<_>>().join(", "));
                match (form, k) {
                    (_, 0) => base,
                    (1, 1) => format!("(switch ({}) case _ .+ advt -> advt)", base),
                    (1, 2) => format!("(switch ({}) case _ .+ (_ .+ advt) -> advt)", base),
                    (2, _) => format!("({} drop {})", base, k),
                    _ => format!("{}[{}:]", base, k),
                }
            }
            V::Func(i) => FUNC_SRC[*i % FUNC_SRC.len()].into(),
            V::Type(t) => t.src(),
            V::Inst(s, fs) => format!("S{}({})", s, fs.iter().map(|x| x.src()).collect::<Vec<_>>().join(", ")),
        }
    }
    fn proto(&self) -> String {
        match self {
            V::Null => "null".into(),
            V::Int(n) => format!("{}", n),
            V::Rat(n, d) => {
                let g = gcd(*n, *d).max(1);
                format!("{}/{}", n / g, d / g)
            }
            V::Float(f) => canon_f64(*f),
            V::Complex(re, im) => format!("c:{}:{}", &canon_f64(*re)[2..], &canon_f64(*im)[2..]),
            V::Str(s) => format!("s:{}", hex(s.as_bytes())),
            V::List(xs) => format!("[{}]", xs.iter().map(|x| x.proto()).collect::<Vec<_>>().join(",")),
            V::Dict(kvs) => format!(
                "{{{}}}",
                kvs.iter().map(|(k, v)| format!("{}:{}", k.proto(), v.proto())).collect::<Vec<_>>().join(",")
            ),
            V::Vector(xs) => format!("v[{}]", xs.iter().map(|x| x.proto()).collect::<Vec<_>>().join(",")),
            V::Bytes(bs) => format!("b:{}", hex(bs)),
            V::Range(a, b) => format!(
                "stream[{}]",
                (*a..=*b).map(|x| x.to_string()).collect::<Vec<_>>().join(",")
            ),
            V::StreamInf => "stream-inf".into(),
            V::Adv(xs, k, _) => format!("stream[{}]", xs[(*k).min(xs.len())..].iter().map(|x| x.proto()).collect::<Vec<_>>().join(",")),
            V::Func(i) => format!("F{}", i),
            V::Type(t) => format!("T:{}", t.name()),
            V::Inst(s, fs) => format!("inst:S{}({})", s, fs.iter().map(|x| x.proto()).collect::<Vec<_>>().join(",")),
        }
    }
    fn type_name(&self) -> &'static str {
        match self {
            V::Null => "nulltype",
            V::Int(_) => "int",
            V::Rat(..) => "rational",
            V::Float(_) => "float",
            V::Complex(..) => "complex",
            V::Str(_) => "str",
            V::List(_) => "list",
            V::Dict(_) => "dict",
            V::Vector(_) => "vector",
            V::Bytes(_) => "bytes",
            V::Range(..) | V::StreamInf | V::Adv(..) => "stream",
            V::Func(_) => "func",
            V::Type(_) => "type",
            V::Inst(..) => "struct_instance",
        }
    }
    /// can be written as a literal pattern without `literally`
    fn plain_literal(&self) -> bool {
        matches!(self, V::Null | V::Str(_)) || matches!(self, V::Int(n) if *n >= 0)
    }
    /// elements when iterated (None: not a sequence / infinite)
    fn items(&self) -> Option<Vec<V>> {
        match self {
            V::List(xs) | V::Vector(xs) => Some(xs.clone()),
            V::Str(s) => Some(s.chars().map(|c| V::Str(c.to_string())).collect()),
            V::Bytes(bs) => Some(bs.iter().map(|b| V::Int(*b as i128)).collect()),
            V::Range(a, b) => Some((*a..=*b).map(|x| V::Int(x as i128)).collect()),
            V::Adv(xs, k, _) => Some(xs[(*k).min(xs.len())..].to_vec()),
            V::Dict(kvs) => Some(kvs.iter().map(|(k, _)| k.clone()).collect()),
            _ => None,
        }
    }
}

const STRS: &[&str] = &["", "a", "ab", "abc", "x y", "q\"r", "\u{e9}", "a\u{e9}", "\u{4e2d}\u{6587}", "\u{1f600}!"];
const FLOATS: &[f64] = &[0.0, -0.0, 1.0, 2.0, -1.0, 0.5, 1.5, -2.25, 3.0, 1e10, 0.1];

fn gen_num(rng: &mut Rng) -> V {
    match rng.below(10) {
        0..=4 => V::Int(rng.range(-3, 12) as i128),
        5 => {
            let d = rng.range(1, 6);
            V::Rat(rng.range(-7, 9), d)
        }
        6 | 7 => V::Float(*rng.pick(FLOATS)),
        8 => V::Int(if rng.chance(1, 2) { 1i128 << 64 } else { -(1i128 << 63) - 5 }),
        _ => V::Int(rng.range(-100, 100) as i128),
    }
}
/// `stream(xs)` with a consumed prefix
fn gen_adv(rng: &mut Rng) -> V {
    let n = 1 + rng.below(5) as usize;
    let xs: Vec<V> = (0..n).map(|i| if rng.chance(1, 5) { V::Str("s".into()) } else { V::Int(2 * i as i128 + 1) }).collect();
    let k = match rng.below(8) { 0 => 0, 1..=4 => 1, 5 | 6 => 2, _ => n }.min(n);
    V::Adv(xs, k, rng.below(3) as u8)
}
fn gen_val(rng: &mut Rng, depth: u32) -> V {
    let top = if depth == 0 { 12 } else { 22 };
    match rng.below(top) {
        0 => V::Null,
        1..=4 => gen_num(rng),
        5 | 6 => V::Str(rng.pick(STRS).to_string()),
        7 => V::Float(*rng.pick(FLOATS)),
        8 => V::Bytes((0..rng.below(4)).map(|_| rng.below(256) as u8).collect()),
        9 if rng.chance(1, 2) => gen_adv(rng),
        9 => {
            let a = rng.range(-2, 3);
            V::Range(a, a + rng.range(-1, 3))
        }
        10 => match rng.below(6) {
            0 => V::Range(0, 1), // (infinite streams only in the corpus: `+.` and comparison patterns would force them)
            1 => V::Func(rng.below(3) as usize),
            2 => V::Type(gen_ty(rng)),
            3 => V::Complex(*rng.pick(&[0.0, 1.0, 1.5, -2.0, 3.0]), *rng.pick(&[0.0, 1.0, -2.0])),
            4 => V::Float(*rng.pick(&[f64::NAN, f64::INFINITY, f64::NEG_INFINITY])),
            _ => V::Vector((0..rng.below(4)).map(|_| gen_num(rng)).collect()),
        },
        11 => V::Int(rng.range(0, 9) as i128),
        12..=16 => {
            let n = match rng.below(8) {
                0 => 0,
                1 | 2 => 1,
                3 | 4 => 2,
                5 | 6 => 3,
                _ => 4 + rng.below(3),
            };
            V::List((0..n).map(|_| gen_val(rng, depth - 1)).collect())
        }
        17 => {
            if rng.chance(1, 3) {
                V::Dict(vec![])
            } else {
                let k = if rng.chance(1, 2) { V::Int(rng.range(0, 5) as i128) } else { V::Str(rng.pick(STRS).to_string()) };
                V::Dict(vec![(k, gen_val(rng, depth - 1))])
            }
        }
        18 | 19 => {
            let s = rng.below(3) as usize;
            let n = STRUCT_ARITY[s];
            V::Inst(s, (0..n).map(|_| gen_val(rng, depth - 1)).collect())
        }
        20 => V::Vector((0..rng.below(4)).map(|_| gen_num(rng)).collect()),
        _ => V::List(vec![gen_num(rng), gen_num(rng)]),
    }
}

// ---------------------------------------------------------------------------------------------
// patterns
#[derive(Clone, Debug, PartialEq)]
enum Cmp {
    Lt,
    Le,
    Gt,
    Ge,
    Eq,
    Ne,
}
impl Cmp {
    fn src(&self) -> &'static str {
        match self {
            Cmp::Lt => "<",
            Cmp::Le => "<=",
            Cmp::Gt => ">",
            Cmp::Ge => ">=",
            Cmp::Eq => "==",
            Cmp::Ne => "!=",
        }
    }
    fn proto(&self) -> &'static str {
        match self {
            Cmp::Lt => "lt",
            Cmp::Le => "le",
            Cmp::Gt => "gt",
            Cmp::Ge => "ge",
            Cmp::Eq => "eq",
            Cmp::Ne => "ne",
        }
    }
}
#[derive(Clone, Debug, PartialEq)]
enum Bi {
    Plus,
    Minus,
    Times,
    Divide,
    Append,
    Prepend,
    Cmp(Vec<Cmp>),
    OtherInfix, // `++`
    OtherCall,  // `max(…)`
    FloorDiv,   // `//` (level of `*`, no destructure)
    Mod,        // `%`
}
impl Bi {
    /// infix spelling inside an operator chain
    fn infix(&self) -> String {
        match self {
            Bi::Plus => "+".into(),
            Bi::Minus => "-".into(),
            Bi::Times => "*".into(),
            Bi::Divide => "/".into(),
            Bi::Append => "+.".into(),
            Bi::Prepend => ".+".into(),
            Bi::Cmp(ops) => ops[0].src().into(),
            Bi::OtherInfix => "++".into(),
            Bi::FloorDiv => "//".into(),
            Bi::Mod => "%".into(),
            Bi::OtherCall => "max".into(),
        }
    }
    fn proto(&self) -> String {
        match self {
            Bi::Plus => "plus".to_string(),
            Bi::Minus => "minus".into(),
            Bi::Times => "times".into(),
            Bi::Divide => "divide".into(),
            Bi::Append => "append".into(),
            Bi::Prepend => "prepend".into(),
            Bi::Cmp(ops) => format!("cmp:{}", ops.iter().map(|o| o.proto()).collect::<Vec<_>>().join(":")),
            Bi::OtherInfix => "other4".into(),
            Bi::FloorDiv | Bi::Mod => "other5".into(),
            Bi::OtherCall => "other0".into(),
        }
    }
}
/// one step of an index path
#[derive(Clone, Debug, PartialEq)]
enum Ix {
    I(V),
    S(Option<V>, Option<V>),
}
impl Ix {
    fn src(&self) -> String {
        match self {
            Ix::I(v) => v.src(),
            Ix::S(lo, hi) => format!(
                "{}:{}",
                lo.as_ref().map(|v| v.src()).unwrap_or_default(),
                hi.as_ref().map(|v| v.src()).unwrap_or_default()
            ),
        }
    }
    fn proto(&self) -> String {
        match self {
            Ix::I(v) => v.proto(),
            Ix::S(lo, hi) => format!(
                "@{}:{}",
                lo.as_ref().map(|v| v.proto()).unwrap_or_default(),
                hi.as_ref().map(|v| v.proto()).unwrap_or_default()
            ),
        }
    }
}
#[derive(Clone, Debug, PartialEq)]
enum P {
    Underscore,
    Ident(usize, Vec<Ix>),
    Anno(Box<P>, Option<V>),
    Default(Box<P>, V),
    Seq(Vec<P>, bool),
    Splat(Box<P>),
    Or(Box<P>, Box<P>),
    And(Box<P>, Box<P>),
    Lit(V),
    Destr(Bi, Vec<P>),
    Struct(usize, Vec<P>),
    /// an unparenthesised infix operator chain `p0 f1 p1 f2 p2 …` (grouped by the interpreter)
    Chain(Box<P>, Vec<(Bi, P)>),
}
impl P {
    /// source text of the pattern as a self-delimiting "single" expression
    fn src(&self) -> String {
        match self {
            P::Underscore => "_".into(),
            P::Ident(x, ixs) => {
                let mut s = format!("x{}", x);
                for i in ixs {
                    s.push_str(&format!("[{}]", i.src()));
                }
                s
            }
            P::Anno(p, None) => format!("({}:)", p.src()),
            P::Anno(p, Some(t)) => format!("({}: {})", p.src(), t.src()),
            P::Default(p, d) => format!("({} = {})", p.src(), d.src()),
            P::Seq(ps, false) => {
                if ps.is_empty() {
                    "[]".into() // there is no syntax for an empty undelimited sequence; never generated
                } else if ps.len() == 1 {
                    format!("({},)", ps[0].src())
                } else {
                    format!("({})", ps.iter().map(|p| p.src()).collect::<Vec<_>>().join(", "))
                }
            }
            P::Seq(ps, true) => format!("[{}]", ps.iter().map(|p| p.src()).collect::<Vec<_>>().join(", ")),
            P::Splat(p) => format!("...{}", p.src()),
            P::Or(a, b) => format!("({} or {})", a.src(), b.src()),
            P::And(a, b) => format!("({} and {})", a.src(), b.src()),
            P::Lit(v) => {
                if v.plain_literal() {
                    v.src()
                } else {
                    format!("(literally {})", v.src())
                }
            }
            P::Destr(b, args) => {
                let a: Vec<String> = args.iter().map(|p| p.src()).collect();
                // `-(a, b)` would be a call of `-` with two operands: `fix_minus` keeps such operands delimited
                match b {
                    Bi::Plus => format!("({} + {})", a[0], a[1]),
                    Bi::Minus => format!("(-({}))", a[0]),
                    Bi::Times => format!("({} * {})", a[0], a[1]),
                    Bi::Divide => format!("({} / {})", a[0], a[1]),
                    Bi::Append => format!("({} +. {})", a[0], a[1]),
                    Bi::Prepend => format!("({} .+ {})", a[0], a[1]),
                    Bi::Cmp(ops) => {
                        let mut s = format!("({}", a[0]);
                        for (i, op) in ops.iter().enumerate() {
                            s.push_str(&format!(" {} {}", op.src(), a[i + 1]));
                        }
                        s.push(')');
                        s
                    }
                    Bi::OtherInfix => format!("({} ++ {})", a[0], a[1]),
                    Bi::FloorDiv => format!("({} // {})", a[0], a[1]),
                    Bi::Mod => format!("({} % {})", a[0], a[1]),
                    Bi::OtherCall => format!("max({})", a.join(", ")),
                }
            }
            P::Struct(s, args) => format!("S{}({})", s, args.iter().map(|p| p.src()).collect::<Vec<_>>().join(", ")),
            P::Chain(first, ops) => {
                let mut t = format!("({}", first.src());
                for (b, q) in ops {
                    t.push_str(&format!(" {} {}", b.infix(), q.src()));
                }
                t.push(')');
                t
            }
        }
    }
    fn proto(&self) -> String {
        let list = |ps: &Vec<P>| ps.iter().map(|p| p.proto()).collect::<Vec<_>>().join(",");
        match self {
            P::Underscore => "U".into(),
            P::Ident(x, ixs) => {
                if ixs.is_empty() {
                    format!("I{}", x)
                } else {
                    format!("X{}[{}]", x, ixs.iter().map(|v| v.proto()).collect::<Vec<_>>().join(","))
                }
            }
            P::Anno(p, None) => format!("A({})", p.proto()),
            P::Anno(p, Some(t)) => format!("A({},{})", p.proto(), t.proto()),
            P::Default(p, d) => format!("D({},{})", p.proto(), d.proto()),
            P::Seq(ps, false) => format!("S({})", list(ps)),
            P::Seq(ps, true) => format!("L({})", list(ps)),
            P::Splat(p) => format!("P({})", p.proto()),
            P::Or(a, b) => format!("O({},{})", a.proto(), b.proto()),
            P::And(a, b) => format!("N({},{})", a.proto(), b.proto()),
            P::Lit(v) => format!("V({})", v.proto()),
            P::Destr(b, args) => format!("B{}({})", b.proto(), list(args)),
            P::Chain(first, ops) => format!(
                "H({}{})",
                first.proto(),
                ops.iter().map(|(b, q)| format!(";{},{}", b.proto(), q.proto())).collect::<String>()
            ),
            P::Struct(s, args) => format!("C{}({})", s, list(args)),
        }
    }
    fn has_or(&self) -> bool {
        match self {
            P::Or(..) => true,
            P::Anno(p, _) | P::Default(p, _) | P::Splat(p) => p.has_or(),
            P::And(a, b) => a.has_or() || b.has_or(),
            P::Seq(ps, _) | P::Destr(_, ps) | P::Struct(_, ps) => ps.iter().any(|p| p.has_or()),
            P::Chain(f, ops) => f.has_or() || ops.iter().any(|(_, q)| q.has_or()),
            _ => false,
        }
    }
    fn has_lit(&self) -> bool {
        match self {
            P::Lit(_) => true,
            P::Anno(p, _) | P::Default(p, _) | P::Splat(p) => p.has_lit(),
            P::And(a, b) | P::Or(a, b) => a.has_lit() || b.has_lit(),
            P::Seq(ps, _) | P::Destr(_, ps) | P::Struct(_, ps) => ps.iter().any(|p| p.has_lit()),
            P::Chain(f, ops) => f.has_lit() || ops.iter().any(|(_, q)| q.has_lit()),
            _ => false,
        }
    }
    fn shape(&self) -> String {
        match self {
            P::Underscore => "underscore".into(),
            P::Ident(_, ixs) => if ixs.is_empty() { "ident".into() } else { "indexed".into() },
            P::Anno(p, _) => format!("anno>{}", p.shape_short()),
            P::Default(..) => "default".into(),
            P::Seq(ps, d) => {
                let splats = ps.iter().filter(|p| is_splat_item(p)).count();
                let defs = ps.iter().filter(|p| matches!(p, P::Default(..))).count();
                format!(
                    "{}{}{}",
                    if *d { "list" } else { "seq" },
                    match splats { 0 => "", 1 => "+splat", _ => "+splats" },
                    if defs > 0 { "+defaults" } else { "" }
                )
            }
            P::Splat(_) => "rawsplat".into(),
            P::Or(..) => "or".into(),
            P::And(..) => "and".into(),
            P::Lit(_) => "literal".into(),
            P::Destr(b, _) => format!(
                "destr:{}",
                match b {
                    Bi::Plus => "+",
                    Bi::Minus => "-",
                    Bi::Times => "*",
                    Bi::Divide => "/",
                    Bi::Append => "+.",
                    Bi::Prepend => ".+",
                    Bi::Cmp(_) => "cmp",
                    _ => "other",
                }
            ),
            P::Struct(..) => "struct".into(),
            P::Chain(_, ops) => format!("chain:{}", ops.iter().map(|(b, _)| b.infix()).collect::<Vec<_>>().join("")),
        }
    }
    fn shape_short(&self) -> String {
        let s = self.shape();
        s.split('>').next().unwrap_or("").to_string()
    }
}
/// `-(a, b)` parses as `-` applied to two operands, so an undelimited sequence directly under a
/// unary minus is turned into a delimited one (both for the source and for the model)
fn fix_minus(p: P) -> P {
    match p {
        P::Destr(Bi::Minus, mut args) => {
            let inner = fix_minus(args.remove(0));
            P::Destr(Bi::Minus, vec![inner])
        }
        P::Destr(b, args) => P::Destr(b, args.into_iter().map(fix_minus).collect()),
        P::Struct(s, args) => P::Struct(s, args.into_iter().map(fix_minus).collect()),
        P::Seq(ps, d) => P::Seq(ps.into_iter().map(fix_minus).collect(), d),
        P::Anno(p, t) => P::Anno(Box::new(fix_minus(*p)), t),
        P::Default(p, d) => P::Default(Box::new(fix_minus(*p)), d),
        P::Splat(p) => P::Splat(Box::new(fix_minus(*p))),
        P::Or(a, b) => P::Or(Box::new(fix_minus(*a)), Box::new(fix_minus(*b))),
        P::And(a, b) => P::And(Box::new(fix_minus(*a)), Box::new(fix_minus(*b))),
        q => q,
    }
}
fn is_splat_item(p: &P) -> bool {
    match p {
        P::Splat(_) => true,
        P::Anno(q, _) => matches!(**q, P::Splat(_)),
        _ => false,
    }
}

/// generator state: the next unused pool name
struct Gen {
    next: usize,
    no_lit: bool,
    /// `=`-context: identifiers refer to existing variables
    existing: bool,
}
impl Gen {
    fn name(&mut self, rng: &mut Rng) -> P {
        if rng.chance(1, 14) {
            return P::Underscore;
        }
        if self.existing {
            return P::Ident(rng.below(K as u64) as usize, vec![]);
        }
        if self.next > 0 && rng.chance(1, 25) {
            // duplicate name: must be refused
            return P::Ident(rng.below(self.next as u64) as usize, vec![]);
        }
        if self.next >= K {
            return P::Underscore;
        }
        self.next += 1;
        P::Ident(self.next - 1, vec![])
    }
    fn lit(&mut self, rng: &mut Rng, v: &V) -> P {
        if self.no_lit {
            return self.name(rng);
        }
        // functions/types/streams as literals never match; keep them rare
        P::Lit(v.clone())
    }
    /// a type that `v` has (mostly) or a random one
    fn ty_for(&mut self, rng: &mut Rng, v: &V) -> V {
        if rng.chance(1, 12) {
            return if rng.chance(1, 2) { V::Null } else { V::Int(5) }; // `x: null` means nulltype; `x: 5` is no type
        }
        if rng.chance(1, 4) {
            return V::Type(gen_ty(rng));
        }
        let t = match v {
            V::Null => Ty::Null,
            V::Int(_) => rng.pick(&[Ty::Int, Ty::Number, Ty::Sat(0), Ty::Sat(4)]).clone(),
            V::Rat(..) => rng.pick(&[Ty::Rational, Ty::Number, Ty::Sat(0)]).clone(),
            V::Float(_) => rng.pick(&[Ty::Float, Ty::Number]).clone(),
            V::Complex(..) => rng.pick(&[Ty::Complex, Ty::Number]).clone(),
            V::Str(_) => rng.pick(&[Ty::Str, Ty::Sat(1)]).clone(),
            V::List(_) => rng.pick(&[Ty::List, Ty::Sat(1), Ty::Sat(2)]).clone(),
            V::Dict(_) => Ty::Dict,
            V::Vector(_) => Ty::Vector,
            V::Bytes(_) => Ty::Bytes,
            V::Range(..) | V::StreamInf | V::Adv(..) => Ty::Stream,
            V::Func(_) => Ty::Func,
            V::Type(_) => rng.pick(&[Ty::Type, Ty::Func]).clone(),
            V::Inst(s, _) => {
                if rng.chance(1, 2) {
                    return V::Type(Ty::Struct(*s));
                } else {
                    Ty::StructInstance
                }
            }
        };
        V::Type(t)
    }
    /// a pattern that has a fair chance of accepting `v`
    fn pat_for(&mut self, rng: &mut Rng, v: &V, depth: u32) -> P {
        if depth == 0 {
            return match rng.below(5) {
                0 => self.lit(rng, v),
                1 => {
                    let n = self.name(rng);
                    P::Anno(Box::new(n), Some(self.ty_for(rng, v)))
                }
                _ => self.name(rng),
            };
        }
        let r = rng.below(100);
        match r {
            0..=9 => self.name(rng),
            10..=15 => self.lit(rng, v),
            16..=23 => {
                let inner = self.pat_for(rng, v, depth - 1);
                let t = if rng.chance(1, 6) { None } else { Some(self.ty_for(rng, v)) };
                P::Anno(Box::new(inner), t)
            }
            24..=31 => {
                // or: first alternative for another value or for this one
                let other = gen_val(rng, 1);
                let a = if rng.chance(1, 2) { self.pat_for(rng, &other, depth - 1) } else { self.pat_for(rng, v, depth - 1) };
                let b = self.pat_for(rng, v, depth - 1);
                P::Or(Box::new(a), Box::new(b))
            }
            32..=36 => {
                let a = self.pat_for(rng, v, depth - 1);
                let b = self.pat_for(rng, v, depth - 1);
                P::And(Box::new(a), Box::new(b))
            }
            _ => self.structural(rng, v, depth),
        }
    }
    /// sub-patterns for a sequence of items, with splat / defaults / length perturbations
    fn seq_items(&mut self, rng: &mut Rng, items: &[V], depth: u32) -> Vec<P> {
        let n = items.len();
        let mut ps: Vec<P> = vec![];
        let mode = rng.below(10);
        if mode <= 3 || n == 0 && mode <= 5 {
            // exact
            for it in items {
                ps.push(self.pat_for(rng, it, depth - 1));
            }
        } else if mode <= 6 {
            // one splat swallowing items[i..j]
            let i = rng.below(n as u64 + 1) as usize;
            let j = i + rng.below((n - i) as u64 + 1) as usize;
            for it in &items[..i] {
                ps.push(self.pat_for(rng, it, depth - 1));
            }
            let mid = V::List(items[i..j].to_vec());
            let inner = if rng.chance(2, 3) { self.name(rng) } else { self.pat_for(rng, &mid, depth - 1) };
            let sp = P::Splat(Box::new(inner));
            ps.push(if rng.chance(1, 4) {
                P::Anno(Box::new(sp), if rng.chance(1, 2) { None } else { Some(self.ty_for(rng, &mid)) })
            } else {
                sp
            });
            for it in &items[j..] {
                ps.push(self.pat_for(rng, it, depth - 1));
            }
        } else {
            // exact plus trailing defaults
            for it in items {
                let p = self.pat_for(rng, it, depth - 1);
                ps.push(if rng.chance(1, 4) { P::Default(Box::new(p), gen_val(rng, 0)) } else { p });
            }
            for _ in 0..1 + rng.below(2) {
                let d = gen_val(rng, 1);
                let p = self.pat_for(rng, &d, depth.saturating_sub(2));
                ps.push(P::Default(Box::new(p), d));
            }
        }
        // perturbations: wrong length, second splat, non-default after default, splat among defaults
        match rng.below(40) {
            0 | 1 => {
                let p = self.name(rng);
                ps.push(p)
            }
            2 | 3 => {
                if !ps.is_empty() {
                    let i = rng.below(ps.len() as u64) as usize;
                    ps.remove(i);
                }
            }
            4 => {
                let p = self.name(rng);
                let i = rng.below(ps.len() as u64 + 1) as usize;
                ps.insert(i, P::Splat(Box::new(p)));
            }
            5 | 6 => {
                let p = self.name(rng);
                let d = gen_val(rng, 0);
                let i = rng.below(ps.len() as u64 + 1) as usize;
                ps.insert(i, P::Default(Box::new(p), d));
            }
            7 => {
                let p = self.name(rng);
                ps.push(P::Anno(Box::new(P::Default(Box::new(p), V::Int(1))), None))
            }
            _ => {}
        }
        ps
    }
    fn structural(&mut self, rng: &mut Rng, v: &V, depth: u32) -> P {
        // patterns that take the value apart
        match v {
            V::Int(n) if rng.chance(3, 4) => {
                let n = *n;
                match rng.below(9) {
                    0 | 1 => {
                        // n + k / k + n
                        let k = if rng.chance(1, 6) { V::Int(n + 1 + rng.below(3) as i128) } else { V::Int(rng.range(0, 3) as i128) };
                        let k = if rng.chance(1, 8) { V::Rat(1, 2) } else { k };
                        let open = self.pat_for(rng, &V::Int(n - if let V::Int(kk) = &k { *kk } else { 0 }), depth - 1);
                        let lit = self.lit_or_open(rng, &k);
                        if rng.chance(1, 2) {
                            P::Destr(Bi::Plus, vec![open, lit])
                        } else {
                            P::Destr(Bi::Plus, vec![lit, open])
                        }
                    }
                    2 | 3 => {
                        let k: i128 = *rng.pick(&[0, 1, 2, 2, 3, -2, 5]);
                        let open = self.pat_for(rng, &V::Int(if k != 0 { n.div_euclid(k) } else { 0 }), depth - 1);
                        let lit = self.lit_or_open(rng, &V::Int(k));
                        if rng.chance(1, 2) {
                            P::Destr(Bi::Times, vec![lit, open])
                        } else {
                            P::Destr(Bi::Times, vec![open, lit])
                        }
                    }
                    4 => {
                        let inner = self.pat_for(rng, &V::Int(-n), depth - 1);
                        P::Destr(Bi::Minus, vec![inner])
                    }
                    5 => {
                        let a = self.pat_for(rng, &V::Int(n), depth - 1);
                        let b = self.pat_for(rng, &V::Int(1), depth - 1);
                        P::Destr(Bi::Divide, vec![a, b])
                    }
                    6 | 7 => self.cmp_chain(rng, v, depth),
                    _ => {
                        let a = self.name(rng);
                        let b = self.name(rng);
                        P::Destr(if rng.chance(1, 2) { Bi::OtherCall } else { Bi::OtherInfix }, vec![a, b])
                    }
                }
            }
            V::Rat(n, d) if rng.chance(3, 4) => {
                let g = gcd(*n, *d).max(1);
                match rng.below(4) {
                    0 | 1 => {
                        let a = self.pat_for(rng, &V::Int((*n / g) as i128), depth - 1);
                        let b = self.pat_for(rng, &V::Int((*d / g) as i128), depth - 1);
                        P::Destr(Bi::Divide, vec![a, b])
                    }
                    2 => {
                        let inner = self.pat_for(rng, &V::Rat(-*n, *d), depth - 1);
                        P::Destr(Bi::Minus, vec![inner])
                    }
                    _ => {
                        let open = self.name(rng);
                        let k = V::Rat(1, *rng.pick(&[1, 2, 3]));
                        let lit = self.lit_or_open(rng, &k);
                        P::Destr(if rng.chance(1, 2) { Bi::Plus } else { Bi::Times }, vec![open, lit])
                    }
                }
            }
            V::Float(f) if rng.chance(1, 2) => {
                if rng.chance(1, 2) {
                    let inner = self.pat_for(rng, &V::Float(-*f), depth - 1);
                    P::Destr(Bi::Minus, vec![inner])
                } else {
                    self.cmp_chain(rng, v, depth)
                }
            }
            V::Inst(s, fs) if rng.chance(4, 5) => {
                let sid = if rng.chance(1, 8) { rng.below(3) as usize } else { *s };
                let ps = self.seq_items(rng, fs, depth);
                P::Struct(sid, ps)
            }
            _ => {
                if let Some(items) = v.items() {
                    match rng.below(10) {
                        0 | 1 if !items.is_empty() => {
                            // h .+ t
                            let (h, t) = (items[0].clone(), rebuild(v, &items[1..]));
                            let a = self.pat_for(rng, &h, depth - 1);
                            let b = self.pat_for(rng, &t, depth - 1);
                            P::Destr(Bi::Prepend, vec![a, b])
                        }
                        2 | 3 if !items.is_empty() => {
                            let (t, l) = (rebuild(v, &items[..items.len() - 1]), items[items.len() - 1].clone());
                            let a = self.pat_for(rng, &t, depth - 1);
                            let b = self.pat_for(rng, &l, depth - 1);
                            P::Destr(Bi::Append, vec![a, b])
                        }
                        4 if items.len() >= 2 && items.len() <= 3 => {
                            // comparison with several open slots: unpacks the value
                            let ops: Vec<Cmp> = (0..items.len() - 1).map(|_| gen_cmp(rng)).collect();
                            let args = items.iter().map(|_| self.name(rng)).collect();
                            P::Destr(Bi::Cmp(ops), args)
                        }
                        _ => {
                            let ps = self.seq_items(rng, &items, depth);
                            let d = ps.is_empty() || rng.chance(1, 3);
                            P::Seq(ps, d)
                        }
                    }
                } else {
                    match rng.below(6) {
                        0 => {
                            let a = self.name(rng);
                            let b = self.name(rng);
                            P::Destr(rng.pick(&[Bi::Prepend, Bi::Append, Bi::Plus, Bi::Divide, Bi::Times]).clone(), vec![a, b])
                        }
                        1 => {
                            let a = self.name(rng);
                            P::Seq(vec![a], false)
                        }
                        2 => self.cmp_chain(rng, v, depth),
                        _ => self.pat_for(rng, v, 0),
                    }
                }
            }
        }
    }
    fn lit_or_open(&mut self, rng: &mut Rng, k: &V) -> P {
        if self.no_lit || rng.chance(1, 12) {
            self.name(rng)
        } else if let V::Int(n) = k {
            if *n < 0 {
                // a negative literal in a pattern is `-(literal)`, i.e. not a literal operand
                if rng.chance(1, 2) {
                    P::Destr(Bi::Minus, vec![P::Lit(V::Int(-*n))])
                } else {
                    P::Lit(k.clone())
                }
            } else {
                P::Lit(k.clone())
            }
        } else {
            P::Lit(k.clone())
        }
    }
    fn cmp_chain(&mut self, rng: &mut Rng, v: &V, _depth: u32) -> P {
        // lo < x < hi style: one open slot
        let n = 1 + rng.below(2) as usize;
        let ops: Vec<Cmp> = (0..n).map(|_| gen_cmp(rng)).collect();
        let slot = rng.below(n as u64 + 1) as usize;
        let mut args = vec![];
        for i in 0..=n {
            if i == slot {
                args.push(self.name(rng));
            } else {
                let bound = match v {
                    V::Int(x) => V::Int(*x + rng.range(-2, 2) as i128),
                    V::Float(f) => {
                        if rng.chance(1, 2) { V::Float(*f + 1.0) } else { V::Int(0) }
                    }
                    V::Str(_) => V::Str(rng.pick(STRS).to_string()),
                    _ => gen_num(rng),
                };
                args.push(if self.no_lit { self.name(rng) } else { P::Lit(bound) });
            }
        }
        P::Destr(Bi::Cmp(ops), args)
    }
}

/// An infix operator pattern with 2-3 operators of different precedence levels (comparison < `+ - .+ +. ++`
/// < `* / // %`), literals and one or two binders, together with a value: mostly one that the pattern
/// accepts when it is grouped as the expression of the same text is, sometimes a neighbour.
fn chain_case(rng: &mut Rng, g: &mut Gen, lit_ok: bool) -> (P, V) {
    let lit = |n: i128| P::Lit(V::Int(n));
    let a = rng.range(1, 4) as i128;
    let b = rng.range(0, 4) as i128;
    let k = rng.range(0, 6) as i128;
    let off = *rng.pick(&[0i128, 0, 0, 1, -1, 2]);
    let cmp1 = |c: Cmp| Bi::Cmp(vec![c]);
    if !lit_ok {
        // literal-free (lambda parameters, `for`): list and rational shapes
        return match rng.below(5) {
            0 => {
                let (x, y, t) = (g.name(rng), g.name(rng), g.name(rng));
                (P::Chain(Box::new(x), vec![(Bi::Divide, y), (Bi::Prepend, t)]), V::List(vec![V::Rat(3, 4), V::Int(1)]))
            }
            1 => {
                let (h, t, l) = (g.name(rng), g.name(rng), g.name(rng));
                (P::Chain(Box::new(h), vec![(Bi::Prepend, t), (Bi::Append, l)]), V::List(vec![V::Int(1), V::Int(2), V::Int(3)]))
            }
            2 => {
                let (t, x, y) = (g.name(rng), g.name(rng), g.name(rng));
                (P::Chain(Box::new(t), vec![(Bi::Append, x), (Bi::Divide, y)]), V::List(vec![V::Int(1), V::Rat(5, 2)]))
            }
            3 => {
                let (x, y, t) = (g.name(rng), g.name(rng), g.name(rng));
                (P::Chain(Box::new(x), vec![(cmp1(Cmp::Lt), y), (Bi::Prepend, t)]), V::List(vec![V::Int(1), V::List(vec![V::Int(2)])]))
            }
            _ => {
                let (x, y, z) = (g.name(rng), g.name(rng), g.name(rng));
                (P::Chain(Box::new(x), vec![(Bi::Times, y), (Bi::Plus, z)]), V::Int(7))
            }
        };
    }
    let x = g.name(rng);
    match rng.below(16) {
        0 | 1 => (P::Chain(Box::new(x), vec![(Bi::Times, lit(a)), (Bi::Plus, lit(b))]), V::Int(k * a + b + off)),
        2 | 3 => (P::Chain(Box::new(lit(b)), vec![(Bi::Plus, x), (Bi::Times, lit(a))]), V::Int(b + k * a + off)),
        4 => (P::Chain(Box::new(lit(a)), vec![(Bi::Times, x), (Bi::Plus, lit(b))]), V::Int(a * k + b + off)),
        5 => (P::Chain(Box::new(lit(b)), vec![(cmp1(Cmp::Lt), x), (Bi::Plus, lit(a))]), V::Int(b - a + 1 + off)),
        6 => (P::Chain(Box::new(x), vec![(Bi::Plus, lit(a)), (cmp1(rng.pick(&[Cmp::Lt, Cmp::Le, Cmp::Ne]).clone()), lit(a + k + 1))]), V::Int(a + k + off)),
        7 => (
            P::Chain(Box::new(lit(b)), vec![(cmp1(Cmp::Le), x), (Bi::Times, lit(a)), (cmp1(Cmp::Lt), lit(b + 20))]),
            V::Int(b.max(0) + k * a + off),
        ),
        8 => (
            P::Chain(Box::new(lit(b)), vec![(Bi::Plus, x), (Bi::Times, lit(a)), (Bi::Plus, lit(1))]),
            V::Int(b + k * a + 1 + off),
        ),
        9 => {
            // two binders: `x * a + y` cannot be solved (no literal operand for `+`): must raise
            let y = g.name(rng);
            (P::Chain(Box::new(x), vec![(Bi::Times, lit(a)), (Bi::Plus, y)]), V::Int(k * a + b))
        }
        10 => {
            // operators without a `destructure` at a different level: raise, whatever the grouping
            let op = rng.pick(&[Bi::FloorDiv, Bi::Mod, Bi::Minus, Bi::OtherInfix]).clone();
            let second = if matches!(op, Bi::FloorDiv | Bi::Mod) { Bi::Plus } else { Bi::Times };
            (P::Chain(Box::new(x), vec![(op, lit(a)), (second, lit(b))]), V::Int(k))
        }
        11 => {
            // rationals: `x / y + 1`
            let y = g.name(rng);
            let q = rng.range(2, 5);
            (P::Chain(Box::new(x), vec![(Bi::Divide, y), (Bi::Plus, lit(1))]), V::Rat(rng.range(1, 9) + q, q))
        }
        12 => {
            // lists: `x + a .+ t` (element arithmetic inside a cons pattern)
            let t = g.name(rng);
            (P::Chain(Box::new(x), vec![(Bi::Plus, lit(a)), (Bi::Prepend, t)]), V::List(vec![V::Int(k + a + off.min(0)), V::Int(9)]))
        }
        13 => {
            let (t, l) = (g.name(rng), g.name(rng));
            (P::Chain(Box::new(x), vec![(Bi::Prepend, t), (Bi::Append, l)]), V::List((0..2 + rng.below(3)).map(|i| V::Int(i as i128)).collect()))
        }
        14 => {
            // `t +. x * a`: the last element is a multiple of a
            let t = g.name(rng);
            (P::Chain(Box::new(t), vec![(Bi::Append, x), (Bi::Times, lit(a))]), V::List(vec![V::Int(0), V::Int(k * a + off.max(0))]))
        }
        _ => {
            // free-form: 2-3 random operators over literals and binders
            let pool = [Bi::Plus, Bi::Times, Bi::Plus, Bi::Times, Bi::Divide, Bi::Minus, Bi::FloorDiv, Bi::Prepend, Bi::Append, Bi::Cmp(vec![Cmp::Lt]), Bi::Cmp(vec![Cmp::Le]), Bi::Cmp(vec![Cmp::Eq])];
            let n = 2 + rng.below(2) as usize;
            let mut ops = vec![];
            for _ in 0..n {
                let o = rng.pick(&pool).clone();
                let q = if rng.chance(1, 3) { g.name(rng) } else { lit(rng.range(0, 5) as i128) };
                ops.push((o, q));
            }
            (P::Chain(Box::new(x), ops), if rng.chance(1, 4) { V::List(vec![V::Int(k), V::Int(a)]) } else { V::Int(k * a + b) })
        }
    }
}


/// A comparison-chain pattern with 2-3 free slots (optionally mixed with literals: `a < 5 < b`,
/// `1 < a < b`) and a sequence with slots-1 .. slots+2 items, ascending or not: a multi-slot
/// comparison unpacks the value like a sequence pattern without a splat, so it needs exactly as many
/// items as it has slots.
fn cmp_slots_case(rng: &mut Rng, g: &mut Gen, lit_ok: bool) -> (P, V) {
    let slots = 2 + rng.below(2) as usize;
    // operand layout: slots, with literals mixed in when allowed
    let mut layout: Vec<bool> = vec![true; slots]; // true = slot
    if lit_ok && rng.chance(1, 2) {
        let at = rng.below(slots as u64 + 1) as usize;
        layout.insert(at, false);
    }
    let asc = rng.chance(2, 3);
    let ops: Vec<Cmp> = (0..layout.len() - 1)
        .map(|_| if asc { rng.pick(&[Cmp::Lt, Cmp::Le, Cmp::Lt, Cmp::Ne]).clone() } else { gen_cmp(rng) })
        .collect();
    // items: slots + {-1, 0, 0, 0, +1, +1, +2}
    let n = (slots as i64 + *rng.pick(&[-1i64, 0, 0, 0, 1, 1, 2])) as usize;
    let ascending_items = rng.chance(3, 4);
    let nums: Vec<i128> = (0..n).map(|i| if ascending_items { 2 * i as i128 + 1 } else { 9 - 3 * i as i128 + (i as i128 % 2) * 5 }).collect();
    let value = match rng.below(6) {
        0 => V::Vector(nums.iter().map(|x| V::Int(*x)).collect()),
        1 if ascending_items && n >= 1 => V::Range(1, n as i64),
        2 => V::Str("abcdef".chars().take(n).collect()),
        3 => V::Bytes(nums.iter().map(|x| (*x as u8) % 200).collect()),
        4 => {
            let k = 1 + rng.below(2) as usize;
            let mut xs: Vec<V> = (0..k).map(|_| V::Int(-7)).collect();
            xs.extend(nums.iter().map(|x| V::Int(*x)));
            V::Adv(xs, k, rng.below(3) as u8)
        }
        _ => V::List(nums.iter().map(|x| V::Int(*x)).collect()),
    };
    // operands: a literal sits strictly between / around what the neighbouring slots will receive
    let mut args = vec![];
    let mut k = 0usize;
    for is_slot in &layout {
        if *is_slot {
            args.push(g.name(rng));
            k += 1;
        } else {
            let lit = if matches!(value, V::Str(_)) {
                V::Str(if k == 0 { "A".into() } else { "zz".into() })
            } else if k == 0 {
                V::Int(0)
            } else if ascending_items {
                V::Int(2 * k as i128) // between item k-1 (2k-1) and item k (2k+1)
            } else {
                V::Int(100)
            };
            args.push(P::Lit(lit));
        }
    }
    let p = if rng.chance(1, 3) {
        // unparenthesised: the chain evaluator merges the comparisons into one pattern
        let mut it = args.into_iter();
        let first = it.next().unwrap();
        P::Chain(Box::new(first), ops.into_iter().map(|o| Bi::Cmp(vec![o])).zip(it).collect())
    } else {
        P::Destr(Bi::Cmp(ops), args)
    };
    (p, value)
}

fn gen_cmp(rng: &mut Rng) -> Cmp {
    rng.pick(&[Cmp::Lt, Cmp::Le, Cmp::Gt, Cmp::Ge, Cmp::Eq, Cmp::Ne, Cmp::Lt, Cmp::Le]).clone()
}
/// a sequence of the same kind as `like` holding `items`
fn rebuild(like: &V, items: &[V]) -> V {
    match like {
        V::Vector(_) => V::Vector(items.to_vec()),
        V::Str(_) => V::Str(items.iter().map(|x| if let V::Str(s) = x { s.clone() } else { String::new() }).collect()),
        V::Bytes(_) => V::Bytes(items.iter().map(|x| if let V::Int(n) = x { *n as u8 } else { 0 }).collect()),
        _ => V::List(items.to_vec()),
    }
}

// ---------------------------------------------------------------------------------------------
// cases
fn dump_src() -> String {
    let items: Vec<String> = (0..K).map(|i| format!("(try x{} catch _ -> \"{}\")", i, UNBOUND)).collect();
    format!("[{}]", items.join(", "))
}
/// predeclared cells of the base frame: (name, declared type, value)
fn env_src(env: &[(usize, Ty, V)]) -> String {
    env.iter().map(|(x, t, v)| format!("x{}: {} = {}; ", x, t.src(), v.src())).collect()
}
fn env_proto(env: &[(usize, Ty, V)]) -> String {
    format!(
        "E({})",
        env.iter().map(|(x, t, v)| format!("{},{},{}", x, t.name(), v.proto())).collect::<Vec<_>>().join(";")
    )
}
fn typed_sample(rng: &mut Rng) -> (Ty, V) {
    match rng.below(10) {
        0 => (Ty::Int, V::Int(rng.range(0, 9) as i128)),
        1 => (Ty::Str, V::Str("s".into())),
        2 => (Ty::List, V::List(vec![V::Int(1), V::Int(2), V::Int(3)])),
        3 => (Ty::Number, V::Float(1.5)),
        4 => (Ty::Dict, V::Dict(vec![(V::Str("k".into()), V::Int(1))])),
        5 => (Ty::Sat(0), V::Int(3)),
        6 => (Ty::Rational, V::Rat(1, 2)),
        _ => (Ty::Any, gen_val(rng, 1)),
    }
}

fn unbound_hex() -> String {
    format!("s:{}", hex(UNBOUND.as_bytes()))
}
/// canonical outcome of the real run in the driver's vocabulary
fn rust_class(o: &Outcome, switch: bool) -> String {
    match o {
        Outcome::Ok(s) => {
            let s = s.replace(&unbound_hex(), "U");
            if switch {
                // "[i,[dump]]" -> "ok i;[dump]"
                let inner = &s[1..s.len() - 1];
                match inner.find(',') {
                    Some(p) => format!("ok {};{}", &inner[..p], &inner[p + 1..]),
                    None => format!("ok {}", s),
                }
            } else {
                format!("ok {}", s)
            }
        }
        o => o.class(),
    }
}


// ---------------------------------------------------------------------------------------------
// assignment histories on annotated variables
#[derive(Clone, Debug)]
enum Op {
    Plus,
    Minus,
    Times,
    FloorDiv,
    Append,
    Prepend,
    Concat,
}
impl Op {
    fn src(&self) -> &'static str {
        match self {
            Op::Plus => "+",
            Op::Minus => "-",
            Op::Times => "*",
            Op::FloorDiv => "//",
            Op::Append => "append",
            Op::Prepend => ".+",
            Op::Concat => "++",
        }
    }
    fn proto(&self) -> &'static str {
        match self {
            Op::Plus => "plus",
            Op::Minus => "minus",
            Op::Times => "times",
            Op::FloorDiv => "floordiv",
            Op::Append => "append",
            Op::Prepend => "prepend",
            Op::Concat => "concat",
        }
    }
}
#[derive(Clone, Debug)]
enum Stmt {
    Assign(P, V),
    Every(P, V),
    OpAssign(P, Op, V),
    OpEvery(P, Op, V),
    Swap(P, P),
}
impl Stmt {
    fn src(&self) -> String {
        match self {
            Stmt::Assign(p, v) => format!("{} = {}", p.src(), v.src()),
            Stmt::Every(p, v) => format!("every {} = {}", p.src(), v.src()),
            Stmt::OpAssign(p, op, v) => format!("{} {}= {}", p.src(), op.src(), v.src()),
            Stmt::OpEvery(p, op, v) => format!("every {} {}= {}", p.src(), op.src(), v.src()),
            Stmt::Swap(a, b) => format!("swap {}, {}", a.src(), b.src()),
        }
    }
    fn proto(&self) -> String {
        match self {
            Stmt::Assign(p, v) => format!("Sa({},{})", p.proto(), v.proto()),
            Stmt::Every(p, v) => format!("Se({},{})", p.proto(), v.proto()),
            Stmt::OpAssign(p, op, v) => format!("So{}({},{})", op.proto(), p.proto(), v.proto()),
            Stmt::OpEvery(p, op, v) => format!("Sm{}({},{})", op.proto(), p.proto(), v.proto()),
            Stmt::Swap(a, b) => format!("Sw({},{})", a.proto(), b.proto()),
        }
    }
    fn kind(&self) -> &'static str {
        match self {
            Stmt::Assign(p, _) => match p {
                P::Ident(_, ixs) if ixs.is_empty() => "assign",
                P::Ident(..) => "index-assign",
                P::Anno(..) => "declare",
                _ => "destructuring-assign",
            },
            Stmt::Every(..) => "every-assign",
            Stmt::OpAssign(..) => "op-assign",
            Stmt::OpEvery(..) => "every-op-assign",
            Stmt::Swap(..) => "swap",
        }
    }
}
/// declared type + initial value of a history variable
fn hist_var(rng: &mut Rng) -> (Ty, V) {
    match rng.below(26) {
        0 | 1 => (Ty::Int, V::Int(rng.range(-2, 9) as i128)),
        2 => (Ty::Number, if rng.chance(1, 2) { V::Int(2) } else { V::Rat(1, 2) }),
        3 => (Ty::Rational, V::Rat(rng.range(1, 5), 2)),
        4 => (Ty::Str, V::Str("s".into())),
        5 | 6 => (Ty::List, V::List(vec![V::Int(1), V::Int(2), V::Int(3)])),
        7 => (Ty::List, V::List(vec![V::List(vec![V::Int(1), V::Int(2)]), V::Int(3)])),
        8 => (Ty::Dict, V::Dict(vec![(V::Str("k".into()), V::Int(1))])),
        9 => (Ty::Sat(0), V::Int(3)),
        10 => (Ty::Sat(1), V::List(vec![V::Int(1), V::Int(2)])),
        11 => (Ty::Sat(4), V::Int(7)),
        12 => (Ty::Struct(1), V::Inst(1, vec![V::Int(1), V::Int(2)])),
        13 | 14 => (Ty::Sat(6), V::List(vec![V::Int(1), V::Int(2), V::Int(3)])),
        16 | 17 => (Ty::Sat(7), V::List(vec![V::Int(1), V::Int(2), V::Int(3)])),
        18 | 19 => (Ty::Sat(8), V::List(vec![V::Int(1), V::Int(2)])),
        20 | 21 => (Ty::Sat(9), V::List(vec![V::List(vec![V::Int(1), V::Int(2)]), V::Int(3)])),
        22 | 23 => (Ty::Stream, V::Range(1, 3)),
        24 => (Ty::Vector, V::Vector(vec![V::Int(1), V::Int(2)])),
        _ => (Ty::Any, V::List(vec![V::Int(4), V::Str("a".into())])),
    }
}
/// a right-hand side that mostly (not always) fits the type
fn hist_val(rng: &mut Rng, t: &Ty) -> V {
    if rng.chance(1, 9) {
        return match rng.below(6) {
            0 => V::Null,
            1 => V::Str("t".into()),
            2 => V::Int(rng.range(-3, 9) as i128),
            3 => V::List(vec![V::Int(rng.range(0, 9) as i128)]),
            4 => V::Rat(3, 2),
            _ => V::List(vec![V::Int(5), V::Int(6)]),
        };
    }
    match t {
        Ty::Int | Ty::Sat(4) => V::Int(rng.range(-3, 9) as i128),
        Ty::Sat(0) => if rng.chance(1, 4) { V::Int(-1) } else { V::Int(rng.range(1, 9) as i128) },
        Ty::Number => if rng.chance(1, 2) { V::Int(rng.range(0, 5) as i128) } else { V::Rat(rng.range(1, 7), 3) },
        Ty::Rational => V::Rat(rng.range(-5, 5), rng.range(1, 4)),
        Ty::Str => V::Str(rng.pick(&["", "u", "vw"]).to_string()),
        Ty::List => V::List((0..rng.below(4)).map(|_| V::Int(rng.range(0, 9) as i128)).collect()),
        Ty::Sat(1) => V::List((0..1 + rng.below(3)).map(|_| V::Int(rng.range(0, 9) as i128)).collect()),
        Ty::Sat(7) => V::List((0..rng.below(4)).map(|_| V::Int(rng.range(0, 6) as i128)).collect()),
        Ty::Sat(8) => if rng.chance(1, 4) { V::List(vec![V::Int(1), V::Rat(1, 2)]) } else { V::List((0..rng.below(3)).map(|_| V::Int(rng.range(0, 9) as i128)).collect()) },
        Ty::Sat(9) => if rng.chance(1, 4) { V::List(vec![V::Int(1)]) } else { V::List(vec![V::List(vec![V::Int(rng.range(0, 5) as i128)]), V::Int(2)]) },
        Ty::Stream => if rng.chance(1, 3) { V::List(vec![V::Int(1)]) } else if rng.chance(1, 3) { gen_adv(rng) } else { V::Range(0, rng.range(0, 3)) },
        Ty::Vector => if rng.chance(1, 3) { V::List(vec![V::Int(1)]) } else { V::Vector(vec![V::Int(3), V::Rat(1, 2)]) },
        Ty::Sat(6) => match rng.below(5) {
            0 => V::List(vec![]),
            1 => V::List(vec![V::Str("t".into()), V::Int(1)]),
            _ => V::List((0..1 + rng.below(3)).map(|_| V::Int(rng.range(0, 9) as i128)).collect()),
        },
        Ty::Dict => if rng.chance(1, 2) { V::Dict(vec![]) } else { V::Dict(vec![(V::Str("j".into()), V::Int(2))]) },
        Ty::Struct(s) => {
            let sid = if rng.chance(1, 5) { 0 } else { *s };
            V::Inst(sid, (0..STRUCT_ARITY[sid]).map(|_| V::Int(rng.range(1, 3) as i128)).collect())
        }
        _ => match rng.below(7) {
            0 => V::Null,
            1 => V::Int(rng.range(-3, 9) as i128),
            2 => V::Str("w".into()),
            3 => V::Bytes(vec![1, 2]),
            4 => V::Vector(vec![V::Int(1), V::Rat(1, 2)]),
            5 => V::Rat(5, 2),
            _ => V::List(vec![V::Int(4), V::Str("a".into())]),
        },
    }
}
/// a target: a variable, or an index path into it when it holds a list / dict
fn hist_target(rng: &mut Rng, vars: &[(Ty, V)], avoid: &[usize]) -> (usize, P) {
    let mut x = rng.below(vars.len() as u64) as usize;
    for _ in 0..4 {
        if avoid.contains(&x) {
            x = rng.below(vars.len() as u64) as usize;
        }
    }
    let small = |rng: &mut Rng| Some(V::Int(rng.range(-3, 3) as i128));
    let slice = |rng: &mut Rng| {
        let lo = if rng.chance(1, 2) { None } else { small(rng) };
        let hi = if rng.chance(1, 2) { None } else { small(rng) };
        Ix::S(lo, hi)
    };
    let ixs: Vec<Ix> = if rng.chance(1, 2) {
        match &vars[x].1 {
            V::List(xs) => {
                let i = Ix::I(V::Int(rng.range(-(xs.len() as i64) - 1, xs.len() as i64) as i128));
                let nested = matches!(xs.get(0), Some(V::List(_)));
                match rng.below(6) {
                    0 | 1 if nested => vec![Ix::I(V::Int(0)), Ix::I(V::Int(rng.range(-1, 2) as i128))],
                    2 if nested => vec![Ix::I(V::Int(0)), slice(rng)],
                    3 if nested => vec![Ix::S(None, Some(V::Int(1))), Ix::I(V::Int(rng.range(0, 1) as i128))],
                    4 | 5 => vec![slice(rng)],
                    _ => vec![i],
                }
            }
            V::Range(..) | V::Adv(..) | V::Vector(_) | V::Bytes(_) => {
                if rng.chance(1, 4) { vec![slice(rng)] } else { vec![Ix::I(V::Int(rng.range(-1, 2) as i128))] }
            }
            V::Dict(_) => vec![Ix::I(V::Str(rng.pick(&["k", "j", "z"]).to_string()))],
            _ => if rng.chance(1, 4) { vec![Ix::I(V::Int(0))] } else { vec![] },
        }
    } else {
        vec![]
    };
    (x, P::Ident(x, ixs))
}
/// a statement aimed at a variable whose type depends on its elements (or that an indexed write
/// turns into a list): every statement form x paths of depth 0, 1, 2 and slices x a value / operator
/// that breaks the type (mostly) or keeps it.  Each must either raise or leave `x is T` true.
fn aimed_stmt(rng: &mut Rng, declared: &[(Ty, V)]) -> Option<Stmt> {
    let cands: Vec<usize> = declared
        .iter()
        .enumerate()
        .filter(|(_, (t, _))| matches!(t, Ty::Sat(1) | Ty::Sat(6) | Ty::Sat(7) | Ty::Sat(8) | Ty::Sat(9) | Ty::Stream | Ty::Vector))
        .map(|(i, _)| i)
        .collect();
    if cands.is_empty() {
        return None;
    }
    let x = *rng.pick(&cands);
    let ty = declared[x].0.clone();
    let breaking = rng.chance(3, 4);
    // path: depth 0 / 1 / 2 / slice (/ slice then index)
    let nested = matches!(ty, Ty::Sat(9));
    let path: Vec<Ix> = match rng.below(if nested { 8 } else { 5 }) {
        0 => vec![],
        1 | 2 => vec![Ix::I(V::Int(rng.range(-1, 1) as i128))],
        3 => vec![Ix::S(None, Some(V::Int(rng.range(1, 2) as i128)))],
        4 => vec![Ix::S(if rng.chance(1, 2) { None } else { Some(V::Int(rng.range(-2, 0) as i128)) }, None)],
        5 => vec![Ix::I(V::Int(0)), Ix::I(V::Int(rng.range(-1, 1) as i128))],
        6 => vec![Ix::I(V::Int(0)), Ix::S(None, None)],
        _ => vec![Ix::S(None, Some(V::Int(1))), Ix::I(V::Int(0))],
    };
    let target = P::Ident(x, path.clone());
    // what to store in an element / the whole variable
    let elem_bad = || -> V {
        match ty {
            Ty::Sat(7) => V::Int(50),
            _ => V::Str("t".into()),
        }
    };
    let whole_bad = match ty {
        Ty::Sat(1) => V::List(vec![V::Int(1)]),
        Ty::Sat(7) => V::List(vec![V::Int(9), V::Int(9)]),
        Ty::Sat(8) => V::List(vec![V::Int(1), V::Rat(1, 2)]),
        Ty::Sat(9) => V::List(vec![V::Int(1)]),
        _ => V::List(vec![V::Str("t".into())]),
    };
    let value = if path.is_empty() {
        if breaking { whole_bad.clone() } else { declared[x].1.clone() }
    } else if nested && path.len() == 1 && matches!(path[0], Ix::I(_)) {
        if breaking { V::Int(5) } else { V::List(vec![V::Int(4)]) }
    } else if breaking {
        elem_bad()
    } else {
        V::Int(1)
    };
    // an operator / operand that breaks (or keeps) an int element, or the whole list
    let (op, opv) = if path.is_empty() {
        if breaking { (Op::Append, elem_bad()) } else { (Op::Concat, V::List(vec![])) }
    } else if breaking {
        match rng.below(3) {
            0 => (Op::Minus, V::Rat(1, 2)),
            1 => (Op::Prepend, V::List(vec![V::Int(1)])),
            _ => (Op::Times, V::Int(20)),
        }
    } else {
        (Op::Times, V::Int(1))
    };
    let other = (x + 1) % declared.len();
    Some(match rng.below(7) {
        0 => Stmt::Assign(target, value),
        1 => Stmt::OpAssign(target, op, opv),
        2 => Stmt::Every(if rng.chance(1, 3) { P::Seq(vec![target, P::Underscore], false) } else { target }, value),
        3 | 4 => Stmt::OpEvery(if rng.chance(1, 4) { P::Seq(vec![target], false) } else { target }, op, opv),
        5 => Stmt::Swap(target, P::Ident(other, vec![])),
        _ => Stmt::Assign(P::Seq(vec![target, P::Underscore], rng.chance(1, 3)), V::List(vec![value, V::Int(0)])),
    })
}
fn gen_history(rng: &mut Rng, len: usize) -> (String, String, Vec<String>) {
    let nvars = 3 + rng.below(2) as usize; // x0..x{n-1} declared up front, x{n} left for a later declaration
    let vars: Vec<(Ty, V)> = (0..=nvars).map(|_| hist_var(rng)).collect();
    let declared = &vars[..nvars];
    let mut stmts: Vec<Stmt> = vec![];
    for _ in 0..len {
        if rng.chance(2, 5) {
            if let Some(st) = aimed_stmt(rng, declared) {
                stmts.push(st);
                continue;
            }
        }
        let r = rng.below(100);
        let st = if r < 22 {
            let (x, p) = hist_target(rng, declared, &[]);
            let v = if let P::Ident(_, ixs) = &p { if ixs.is_empty() { hist_val(rng, &declared[x].0) } else { hist_val(rng, &Ty::Int) } } else { V::Null };
            Stmt::Assign(p, v)
        } else if r < 44 {
            let (x, p) = hist_target(rng, declared, &[]);
            let whole = matches!(&p, P::Ident(_, ixs) if ixs.is_empty());
            let listy = whole && matches!(declared[x].0, Ty::List | Ty::Sat(1) | Ty::Any);
            let op = if rng.chance(1, 7) {
                rng.pick(&[Op::Plus, Op::Minus, Op::Times, Op::FloorDiv, Op::Append, Op::Prepend, Op::Concat]).clone()
            } else if listy {
                rng.pick(&[Op::Append, Op::Prepend, Op::Concat, Op::Append]).clone()
            } else {
                rng.pick(&[Op::Plus, Op::Plus, Op::Minus, Op::Times, Op::FloorDiv]).clone()
            };
            let v = match op {
                Op::Plus | Op::Minus | Op::Times => if rng.chance(1, 5) { V::Rat(1, 2) } else { V::Int(rng.range(-2, 4) as i128) },
                Op::FloorDiv => V::Int(rng.range(0, 3) as i128),
                Op::Append => hist_val(rng, &Ty::Int),
                Op::Prepend | Op::Concat => if rng.chance(1, 5) { V::Int(1) } else { V::List((0..rng.below(3)).map(|_| V::Int(7)).collect()) },
            };
            let _ = x;
            Stmt::OpAssign(p, op, v)
        } else if r < 56 {
            let (a, pa) = hist_target(rng, declared, &[]);
            let (_, pb) = hist_target(rng, declared, &[a]);
            Stmt::Swap(pa, pb)
        } else if r < 68 {
            // every-assignment over one or two targets
            let (a, pa) = hist_target(rng, declared, &[]);
            let p = if rng.chance(1, 2) {
                let (_, pb) = hist_target(rng, declared, &[a]);
                P::Seq(vec![pa, pb], rng.chance(1, 4))
            } else if rng.chance(1, 4) { P::Seq(vec![pa, P::Underscore], false) } else { pa };
            let v = hist_val(rng, &declared[a].0);
            Stmt::Every(p, v)
        } else if r < 80 {
            let (a, pa) = hist_target(rng, declared, &[]);
            let p = if rng.chance(1, 2) {
                let (_, pb) = hist_target(rng, declared, &[a]);
                if rng.chance(1, 5) { P::And(Box::new(pa), Box::new(pb)) } else { P::Seq(vec![pa, pb], false) }
            } else { pa };
            let op = rng.pick(&[Op::Plus, Op::Minus, Op::Times, Op::Append, Op::FloorDiv]).clone();
            let v = match op { Op::FloorDiv => V::Int(rng.range(0, 2) as i128), _ => V::Int(rng.range(-2, 4) as i128) };
            Stmt::OpEvery(p, op, v)
        } else if r < 94 {
            // destructuring assignment onto two (distinct) variables
            let (a, pa) = hist_target(rng, declared, &[]);
            let (b, pb) = hist_target(rng, declared, &[a]);
            let (va, vb) = (hist_val(rng, &declared[a].0), hist_val(rng, &declared[b].0));
            match rng.below(4) {
                0 => Stmt::Assign(P::Seq(vec![pa, P::Splat(Box::new(pb))], false), V::List(vec![va, vb.clone(), vb])),
                1 => Stmt::Assign(P::Destr(Bi::Prepend, vec![pa, pb]), V::List(vec![va, vb])),
                2 => Stmt::Assign(P::Seq(vec![pa, P::Default(Box::new(pb), vb)], false), V::List(vec![va])),
                _ => Stmt::Assign(P::Seq(vec![pa, pb], rng.chance(1, 4)), V::List(vec![va, vb])),
            }
        } else {
            // late declaration of the spare name (once it exists, declaring again is refused)
            let (t, v) = (&vars[nvars].0, &vars[nvars].1);
            let v = if rng.chance(1, 4) { hist_val(rng, &Ty::Str) } else { v.clone() };
            Stmt::Assign(P::Anno(Box::new(P::Ident(nvars, vec![])), Some(V::Type(t.clone()))), v)
        };
        stmts.push(st);
    }
    let n = nvars + 1;
    let obs_types: Vec<String> = (0..n).map(|i| format!("(try (x{} is {}) catch _ -> \"E\")", i, vars[i].0.src())).collect();
    let obs_vals: Vec<String> = (0..n).map(|i| format!("(try x{} catch _ -> \"{}\")", i, UNBOUND)).collect();
    let obs = format!("[[{}], [{}]]", obs_types.join(", "), obs_vals.join(", "));
    let decls: String = declared.iter().enumerate().map(|(i, (t, v))| format!("x{}: {} = {}; ", i, t.src(), v.src())).collect();
    let body: String = stmts.iter().map(|s| format!("{}; r append= {}; ", s.src(), obs)).collect();
    let src = format!("{}r := []; try ({}null) catch e -> (r append= \"raise\"); r", decls, body);
    let env: Vec<(usize, Ty, V)> = declared.iter().enumerate().map(|(i, (t, v))| (i, t.clone(), v.clone())).collect();
    let req = format!("hist {} {} {}", n, env_proto(&env), stmts.iter().map(|s| s.proto()).collect::<Vec<_>>().join(" "));
    (src, req, stmts.iter().map(|s| s.kind().to_string()).collect())
}


// ---------------------------------------------------------------------------------------------
// `for` clauses whose patterns hold expressions that are not constant over the loop
//
// A pattern's annotations (`x: ts[i]`, `x: tv`, `x: t()`) and the callee of a call pattern
// (`cf(a, b)`, `cs[i](a, b)`) are expressions; the interpreter evaluates them when an element is
// bound.  The body moves the state they read (i += 1, tv = str, cf = S0) and logs what was bound.
// Variables (model ids): 0 r (log), 1 i, 2 n (call counter), 3 ts, 4 tv, 5 cf, 6 cs, 9 zz (never
// declared), 10.. loop variables a0..
fn for_name(id: usize) -> String {
    match id {
        0 => "r".into(),
        1 => "i".into(),
        2 => "n".into(),
        3 => "ts".into(),
        4 => "tv".into(),
        5 => "cf".into(),
        6 => "cs".into(),
        9 => "zz".into(),
        k => format!("a{}", k - 10),
    }
}
/// callee values: builtin tokens as in `biOfTok` (Impl/PatternFor.lean), struct types, other things
fn cval_src(v: &V) -> String {
    match v {
        V::Func(10) => "+".into(),
        V::Func(12) => "*".into(),
        V::Func(14) => "+.".into(),
        V::Func(15) => ".+".into(),
        V::Func(20) => "<".into(),
        V::Func(21) => "<=".into(),
        V::Func(22) => ">".into(),
        V::Func(23) => ">=".into(),
        V::Func(24) => "==".into(),
        V::Func(25) => "!=".into(),
        V::Func(1) => "print".into(),
        V::Func(_) => "(\\z -> z)".into(),
        V::List(xs) => format!("[{}]", xs.iter().map(cval_src).collect::<Vec<_>>().join(", ")),
        v => v.src(),
    }
}
fn cval_proto(v: &V) -> String {
    match v {
        V::Func(t) if [1usize, 10, 12, 14, 15, 20, 21, 22, 23, 24, 25].contains(t) => format!("F{}", t),
        V::Func(_) => "F0".into(),
        V::List(xs) => format!("[{}]", xs.iter().map(cval_proto).collect::<Vec<_>>().join(",")),
        v => v.proto(),
    }
}
#[derive(Clone, Debug)]
enum PE {
    Const(V),
    Var(usize),
    Index(usize, usize),
    /// `t()` (which = 0) / `u()` (which = 1): increments n, then yields the inner expression
    Counted(u8, Box<PE>),
}
impl PE {
    fn src(&self) -> String {
        match self {
            PE::Const(v) => cval_src(v),
            PE::Var(x) => for_name(*x),
            PE::Index(a, b) => format!("{}[{}]", for_name(*a), for_name(*b)),
            PE::Counted(0, _) => "t()".into(),
            PE::Counted(_, _) => "u()".into(),
        }
    }
    fn proto(&self) -> String {
        match self {
            PE::Const(v) => format!("c{}", cval_proto(v)),
            PE::Var(x) => format!("v{}", x),
            PE::Index(a, b) => format!("x{}.{}", a, b),
            PE::Counted(_, e) => format!("n2({})", e.proto()),
        }
    }
    fn kind(&self) -> &'static str {
        match self {
            PE::Const(_) => "const",
            PE::Var(9) => "undefined",
            PE::Var(_) => "var",
            PE::Index(..) => "index",
            PE::Counted(..) => "counted",
        }
    }
}
#[derive(Clone, Debug)]
enum UP {
    Under,
    Ident(usize),
    Anno(Box<UP>, PE),
    Seq(Vec<UP>, bool),
    Splat(Box<UP>),
    Call(PE, Vec<UP>),
}
impl UP {
    fn src(&self) -> String {
        match self {
            UP::Under => "_".into(),
            UP::Ident(x) => for_name(*x),
            UP::Anno(p, t) => format!("({}: {})", p.src(), t.src()),
            UP::Seq(ps, false) if ps.len() == 1 => format!("({},)", ps[0].src()),
            UP::Seq(ps, false) => format!("({})", ps.iter().map(|p| p.src()).collect::<Vec<_>>().join(", ")),
            UP::Seq(ps, true) => format!("[{}]", ps.iter().map(|p| p.src()).collect::<Vec<_>>().join(", ")),
            UP::Splat(p) => format!("...{}", p.src()),
            UP::Call(f, args) => format!("{}({})", f.src(), args.iter().map(|p| p.src()).collect::<Vec<_>>().join(", ")),
        }
    }
    /// as the whole pattern of a clause: an annotated name needs no parentheses there
    fn top_src(&self, bare: bool) -> String {
        match self {
            UP::Anno(p, t) if bare && matches!(**p, UP::Ident(_)) => format!("{}: {}", p.src(), t.src()),
            p => p.src(),
        }
    }
    fn proto(&self) -> String {
        let list = |ps: &Vec<UP>| ps.iter().map(|p| p.proto()).collect::<Vec<_>>().join(",");
        match self {
            UP::Under => "U".into(),
            UP::Ident(x) => format!("I{}", x),
            UP::Anno(p, t) => format!("A({},{})", p.proto(), t.proto()),
            UP::Seq(ps, false) => format!("S({})", list(ps)),
            UP::Seq(ps, true) => format!("L({})", list(ps)),
            UP::Splat(p) => format!("P({})", p.proto()),
            UP::Call(f, args) => format!("K({};{})", f.proto(), list(args)),
        }
    }
}
/// a value of the given type (for the annotation vocabulary of the `for` cases)
fn for_val_of(rng: &mut Rng, t: &Ty) -> V {
    match t {
        Ty::Int => V::Int(rng.range(0, 9) as i128),
        Ty::Str => V::Str(rng.pick(&["a", "bc", ""]).to_string()),
        Ty::List => V::List((0..rng.below(3)).map(|k| V::Int(k as i128)).collect()),
        Ty::Rational => V::Rat(1, 2),
        Ty::Number => if rng.chance(1, 2) { V::Int(3) } else { V::Rat(3, 2) },
        Ty::Null => V::Null,
        Ty::Struct(0) => V::Inst(0, vec![V::Int(7)]),
        Ty::Struct(1) => V::Inst(1, vec![V::Int(7), V::Str("q".into())]),
        Ty::Sat(0) => V::Int(rng.range(1, 5) as i128),
        _ => if rng.chance(1, 2) { V::Int(4) } else { V::Str("z".into()) },
    }
}
const FOR_TYPES: &[Ty] = &[Ty::Int, Ty::Str, Ty::List, Ty::Number, Ty::Rational, Ty::Any, Ty::Null, Ty::Struct(0), Ty::Struct(1), Ty::Sat(0)];
/// what the callee accepts when called as a two-argument pattern `f(a, b)`
fn for_val_for_callee(rng: &mut Rng, c: &V) -> V {
    let two = |a: i128, b: i128| V::List(vec![V::Int(a), V::Int(b)]);
    match c {
        V::Func(20) | V::Func(21) | V::Func(25) => two(1, 2 + rng.below(3) as i128),
        V::Func(22) | V::Func(23) => two(5, rng.below(3) as i128),
        V::Func(24) => two(3, 3),
        V::Func(14) | V::Func(15) => V::List((0..1 + rng.below(3)).map(|k| V::Int(k as i128 + 1)).collect()),
        V::Type(Ty::Struct(0)) => V::Inst(0, vec![V::Int(rng.range(0, 5) as i128)]),
        V::Type(Ty::Struct(1)) => V::Inst(1, vec![V::Int(rng.range(0, 5) as i128), V::Str("f".into())]),
        _ => two(1, 2),
    }
}
const CALLEES: &[usize] = &[20, 20, 21, 22, 23, 24, 25, 14, 15, 15, 10, 12, 1, 0];
fn gen_callee(rng: &mut Rng) -> V {
    match rng.below(10) {
        0 | 1 => V::Type(Ty::Struct(1)),
        2 => V::Type(Ty::Struct(0)),
        3 if rng.chance(1, 3) => V::Int(5),
        3 => V::Type(Ty::Int),
        _ => V::Func(*rng.pick(CALLEES)),
    }
}

/// (source, request, kind)
fn gen_for(rng: &mut Rng) -> (String, String, String) {
    // --- state
    let nts = 2 + rng.below(2) as usize;
    let mut ts: Vec<V> = (0..nts).map(|_| V::Type(rng.pick(FOR_TYPES).clone())).collect();
    if rng.chance(1, 12) {
        let k = rng.below(nts as u64) as usize;
        ts[k] = V::Int(5); // not a type: the annotation raises when it gets there
    }
    let tv0 = rng.pick(FOR_TYPES).clone();
    let tv1 = rng.pick(FOR_TYPES).clone();
    let cf0 = gen_callee(rng);
    let cf1 = gen_callee(rng);
    let cs: Vec<V> = (0..nts).map(|_| gen_callee(rng)).collect();
    // --- the expression that changes over the loop
    let callee_mode = rng.chance(2, 5);
    let base: PE = if callee_mode {
        match rng.below(8) {
            0 => PE::Const(cf0.clone()),
            1..=3 => PE::Var(5),
            4..=6 => PE::Index(6, 1),
            _ => PE::Var(9),
        }
    } else {
        match rng.below(10) {
            0 => PE::Const(V::Type(tv0.clone())),
            1..=3 => PE::Var(4),
            4..=7 => PE::Index(3, 1),
            8 => PE::Var(9),
            _ => PE::Const(V::Int(3)),
        }
    };
    let counted = rng.chance(3, 10);
    let expr = if counted { PE::Counted(if callee_mode { 1 } else { 0 }, Box::new(base.clone())) } else { base.clone() };
    // --- what the expression denotes at iteration j, as far as the generator can tell (None: raises)
    let tick_i = !matches!(base, PE::Var(_)) || rng.chance(1, 3);
    let tick_var = matches!(base, PE::Var(4) | PE::Var(5)) || rng.chance(1, 6);
    let denote = |j: usize| -> Option<V> {
        match &base {
            PE::Const(v) => Some(v.clone()),
            PE::Var(4) => Some(V::Type(if j == 0 || !tick_var { tv0.clone() } else { tv1.clone() })),
            PE::Var(5) => Some(if j == 0 || !tick_var { cf0.clone() } else { cf1.clone() }),
            PE::Index(3, _) => if tick_i { ts.get(j).cloned() } else { ts.get(0).cloned() },
            PE::Index(6, _) => if tick_i { cs.get(j).cloned() } else { cs.get(0).cloned() },
            _ => None,
        }
    };
    // --- clauses
    let item = rng.chance(1, 4);
    let nested = !item && rng.chance(1, 4);
    let n_items = match rng.below(10) { 0 => 0, 1 => 1, 2..=5 => 2, 6..=8 => 3, _ => 4 };
    let x = 10usize;
    let y = 11usize;
    let z = 12usize;
    // element j: chosen to fit what the expression denotes then (mostly), or what it denoted at first
    let mut elems: Vec<V> = vec![];
    let shape = rng.below(4);
    for j in 0..n_items {
        let which = if rng.chance(3, 4) { j } else { 0 };
        let d = denote(which);
        let fit: V = if callee_mode {
            match &d { Some(c) => for_val_for_callee(rng, c), None => V::List(vec![V::Int(1), V::Int(2)]) }
        } else {
            match &d {
                Some(V::Type(t)) => for_val_of(rng, t),
                _ => V::Int(1),
            }
        };
        let e = if callee_mode || item {
            fit
        } else {
            match shape {
                0 | 1 => fit,
                2 => V::List(vec![fit, V::Int(j as i128)]),
                _ => V::List(vec![V::Str("h".into()), fit, V::Int(0)]),
            }
        };
        elems.push(e);
    }
    let pat: UP = if callee_mode {
        let args = match rng.below(6) {
            0 => vec![UP::Ident(x)],
            1 => vec![UP::Ident(x), UP::Under],
            2 => vec![UP::Ident(x), UP::Anno(Box::new(UP::Ident(y)), PE::Const(V::Type(Ty::Any)))],
            _ => vec![UP::Ident(x), UP::Ident(y)],
        };
        UP::Call(expr.clone(), args)
    } else if item {
        match rng.below(3) {
            0 => UP::Seq(vec![UP::Ident(y), UP::Anno(Box::new(UP::Ident(x)), expr.clone())], false),
            1 => UP::Seq(vec![UP::Under, UP::Anno(Box::new(UP::Ident(x)), expr.clone())], true),
            _ => UP::Seq(vec![UP::Anno(Box::new(UP::Ident(y)), PE::Const(V::Type(Ty::Int))), UP::Anno(Box::new(UP::Ident(x)), expr.clone())], false),
        }
    } else {
        match shape {
            0 | 1 => UP::Anno(Box::new(UP::Ident(x)), expr.clone()),
            2 => UP::Seq(vec![UP::Anno(Box::new(UP::Ident(x)), expr.clone()), UP::Ident(y)], rng.chance(1, 3)),
            _ => UP::Seq(vec![UP::Under, UP::Anno(Box::new(UP::Ident(x)), expr.clone()), UP::Splat(Box::new(UP::Ident(y)))], false),
        }
    };
    // the iteratee
    let iter_v: V = if item {
        match rng.below(5) {
            0 if n_items >= 1 => V::Dict(vec![(V::Int(0), elems[0].clone())]),
            1 if n_items == 0 => V::Dict(vec![]),
            _ => V::List(elems.clone()),
        }
    } else if n_items == 0 {
        rng.pick(&[V::List(vec![]), V::Str(String::new()), V::Dict(vec![]), V::List(vec![])]).clone()
    } else {
        V::List(elems.clone())
    };
    // nested: the elements come in two groups, iterated by an outer clause
    let (clauses_src, clauses_proto) = if nested {
        let cut = n_items / 2;
        let groups = V::List(vec![V::List(elems[..cut].to_vec()), V::List(elems[cut..].to_vec())]);
        (
            format!("{} <- {}; {} <- {}", for_name(z), cval_src(&groups), pat.top_src(rng.chance(1, 2)), for_name(z)),
            format!("Cn(I{};c{}) Cn({};v{})", z, cval_proto(&groups), pat.proto(), z),
        )
    } else {
        (
            format!("{} {} {}", pat.top_src(rng.chance(1, 2)), if item { "<<-" } else { "<-" }, cval_src(&iter_v)),
            format!("C{}({};c{})", if item { "i" } else { "n" }, pat.proto(), cval_proto(&iter_v)),
        )
    };
    // --- body
    let mut body_src: Vec<String> = vec![];
    let mut body_proto: Vec<String> = vec![];
    let mut state_change: Vec<(String, String)> = vec![];
    if tick_i {
        state_change.push(("i += 1".into(), "Soplus(I1,1)".into()));
    }
    if tick_var {
        if callee_mode {
            state_change.push((format!("cf = {}", cval_src(&cf1)), format!("Sa(I5,{})", cval_proto(&cf1))));
        } else {
            state_change.push((format!("tv = {}", tv1.src()), format!("Sa(I4,T:{})", tv1.name())));
        }
    }
    let early = rng.chance(1, 4);
    if early {
        for (a, b) in &state_change {
            body_src.push(a.clone());
            body_proto.push(b.clone());
        }
    }
    body_src.push(format!("r append= {}", for_name(x)));
    body_proto.push(format!("Gl(0,{})", x));
    if !callee_mode && rng.chance(1, 2) {
        // is the loop variable of the type its annotation denotes (now)?
        body_src.push(format!("r append= ({} is {})", for_name(x), expr.src()));
        body_proto.push(format!("Gi(0,{},{})", x, expr.proto()));
    }
    if !callee_mode && rng.chance(1, 3) {
        // the declared type stored with the loop variable decides which later assignments are legal
        let v = if rng.chance(1, 2) { V::Str("b".into()) } else { V::Int(8) };
        body_src.push(format!("{} = {}", for_name(x), v.src()));
        body_proto.push(format!("Sa(I{},{})", x, v.proto()));
        body_src.push(format!("r append= {}", for_name(x)));
        body_proto.push(format!("Gl(0,{})", x));
    }
    if !early {
        for (a, b) in &state_change {
            body_src.push(a.clone());
            body_proto.push(b.clone());
        }
    }
    // --- program
    let decl = format!(
        "r := []; i := 0; n := 0; ts := {}; tv := {}; cf := {}; cs := {}; t := \\ -> (n += 1; {}); u := \\ -> (n += 1; {}); ",
        cval_src(&V::List(ts.clone())),
        tv0.src(),
        cval_src(&cf0),
        cval_src(&V::List(cs.clone())),
        if callee_mode { "int".to_string() } else { base.src() },
        if callee_mode { base.src() } else { "<".to_string() },
    );
    let src = format!(
        "{}try (for ({}) ({})) catch e -> (r append= \"raise\"); [r, i, n]",
        decl,
        clauses_src,
        body_src.join("; ")
    );
    let env = format!(
        "E(0,anything,[];1,anything,0;2,anything,0;3,anything,{};4,anything,T:{};5,anything,{};6,anything,{})",
        cval_proto(&V::List(ts.clone())),
        tv0.name(),
        cval_proto(&cf0),
        cval_proto(&V::List(cs.clone())),
    );
    let req = format!("for 3 {} {} {}", env, clauses_proto, body_proto.join(" "));
    let kind = format!(
        "for/{}{}{}:{}{}",
        if item { "<<-" } else { "<-" },
        if nested { "/nested" } else { "" },
        if n_items == 0 { "/empty" } else { "" },
        if callee_mode { "callee-" } else { "anno-" },
        expr.kind(),
    );
    (src, req, kind)
}

struct Case {
    key: String,
    src: String,
    req: String,
    switch: bool,
    nontrivial: bool,
    arm: String,
    has_or: bool,
}

fn gen_pattern_case(rng: &mut Rng) -> Case {
    let depth = 1 + rng.below(4) as u32; // nesting <= 4
    let v = gen_val(rng, 2);
    // base frame: sometimes predeclare a few pool names
    let mut env: Vec<(usize, Ty, V)> = vec![];
    let ctx = rng.below(100);
    let assign_ctx = (40..58).contains(&ctx);
    if assign_ctx {
        for x in 0..K {
            let (t, val) = typed_sample(rng);
            env.push((x, t, val));
        }
    } else if rng.chance(1, 6) {
        let x = rng.below(K as u64) as usize;
        let (t, val) = typed_sample(rng);
        env.push((x, t, val));
    }
    let mut g = Gen { next: 0, no_lit: false, existing: assign_ctx };
    // about one case in seven is an unparenthesised operator chain mixing precedence levels
    let mut v = v;
    let mut forced: Option<P> = None;
    if rng.chance(1, 7) {
        let lit_ok = !(70..80).contains(&ctx) && ctx < 90;
        let (p, cv) = chain_case(rng, &mut g, lit_ok);
        // sometimes nested in a sequence or under an annotation
        let (p, cv) = match rng.below(6) {
            0 => (P::Seq(vec![p, P::Underscore], false), V::List(vec![cv, V::Int(0)])),
            1 if lit_ok => (P::Or(Box::new(P::Lit(V::Int(-1))), Box::new(p)), cv),
            _ => (p, cv),
        };
        forced = Some(p);
        v = cv;
    }
    if forced.is_none() && rng.chance(1, 10) {
        // multi-slot comparison patterns against sequences of every nearby length
        let lit_ok = !(70..80).contains(&ctx) && ctx < 90;
        let (p, cv) = cmp_slots_case(rng, &mut g, lit_ok);
        forced = Some(p);
        v = cv;
    }
    let forced_cell = std::cell::RefCell::new(forced);
    let pat_for = |g: &mut Gen, rng: &mut Rng, v: &V| -> P {
        if let Some(p) = forced_cell.borrow_mut().take() {
            return p;
        }
        fix_minus(match rng.below(20) {
            0..=13 => g.pat_for(rng, v, depth),
            14..=17 => {
                let other = gen_val(rng, 2);
                g.pat_for(rng, &other, depth)
            }
            _ => {
                let other = gen_val(rng, 1);
                let p = g.pat_for(rng, &other, depth.min(2));
                if rng.chance(1, 2) { P::Splat(Box::new(p)) } else { p }
            }
        })
    };
    let dump = dump_src();
    let (src, req, switch, pats): (String, String, bool, Vec<P>) = if ctx < 40 {
        // switch with 1..3 arms
        let n = 1 + rng.below(3) as usize;
        let mut arms = vec![];
        for i in 0..n {
            g.next = 0;
            let p = if i + 1 < n && rng.chance(1, 2) {
                let other = gen_val(rng, 2);
                fix_minus(g.pat_for(rng, &other, depth))
            } else {
                pat_for(&mut g, rng, &v)
            };
            arms.push(p);
        }
        if rng.chance(1, 3) {
            // arm bodies with side effects that may raise: the body of the first accepting arm runs
            // exactly once and its error leaves the switch (x7 logs which bodies ran)
            if rng.chance(1, 2) {
                g.next = 0;
                arms.push(if rng.chance(2, 3) { P::Underscore } else { pat_for(&mut g, rng, &v) });
            }
            let codes: Vec<&str> = arms.iter().map(|_| *rng.pick(&["lt", "lt", "lo", "lo", "t", "o"])).collect();
            let body: String = arms
                .iter()
                .zip(codes.iter())
                .enumerate()
                .map(|(i, (p, c))| {
                    format!(
                        " case {} -> ({}{})",
                        p.src(),
                        if c.contains('l') { format!("x7 append= {}; ", i) } else { String::new() },
                        if c.contains('t') { "throw \"boom\"".to_string() } else { format!("[{}, {}]", i, dump) }
                    )
                })
                .collect();
            let mut env2 = env.clone();
            env2.push((7, Ty::Any, V::List(vec![])));
            let sw = match rng.below(3) {
                0 => format!("(\\switch{})({})", body, v.src()),
                1 => format!("swf := \\switch{}; swr := try swf({}) catch e -> (if (e == \"boom\") \"B\" else \"N\"); [swr, x7]", body, v.src()),
                _ => format!("switch ({}){}", v.src(), body),
            };
            let src = if sw.starts_with("swf") {
                format!("{}{}", env_src(&env2), sw)
            } else {
                format!("{}swr := try ({}) catch e -> (if (e == \"boom\") \"B\" else \"N\"); [swr, x7]", env_src(&env2), sw)
            };
            let req = format!(
                "switchb {} {} {} {}",
                K,
                env_proto(&env2),
                v.proto(),
                arms.iter().zip(codes.iter()).map(|(p, c)| format!("{} {}", c, p.proto())).collect::<Vec<_>>().join(" ")
            );
            let shape = arms.last().map(|p| p.shape()).unwrap_or_default();
            return Case {
                key: format!("switch-body/{}", shape),
                src,
                req,
                switch: false,
                nontrivial: true,
                arm: format!("switch-body:{}", codes.join(",")),
                has_or: arms.iter().any(|p| p.has_or()),
            };
        }
        let body: String = arms.iter().enumerate().map(|(i, p)| format!(" case {} -> [{}, {}]", p.src(), i, dump)).collect();
        (
            format!("{}switch ({}){}", env_src(&env), v.src(), body),
            format!("switch {} {} {} {}", K, env_proto(&env), v.proto(), arms.iter().map(|p| p.proto()).collect::<Vec<_>>().join(" ")),
            true,
            arms,
        )
    } else if ctx < 58 {
        // `pat = v` on existing variables (some items may still declare through an annotation)
        let mut p = pat_for(&mut g, rng, &v);
        if rng.chance(1, 4) {
            // index path into a list / dict variable
            let x = rng.below(K as u64) as usize;
            let ix = match &env[x].2 {
                V::List(_) => vec![Ix::I(V::Int(rng.range(-4, 3) as i128))],
                V::Dict(_) => vec![Ix::I(if rng.chance(1, 2) { V::Str("k".into()) } else { V::Str("new".into()) })],
                _ => vec![Ix::I(V::Int(0))],
            };
            p = P::Seq(vec![P::Ident(x, ix), p], false);
            let vv = V::List(vec![gen_val(rng, 1), v.clone()]);
            return finish_case("assign", rng, &env, vv, p, &dump);
        }
        return finish_case("assign", rng, &env, v, p, &dump);
    } else if ctx < 70 {
        // `pat := v` / `pat: T = v`: the parser wraps the pattern in an annotation
        let p = pat_for(&mut g, rng, &v);
        let t = if rng.chance(2, 3) { None } else { Some(g.ty_for(rng, &v)) };
        let wrapped = P::Anno(Box::new(p.clone()), t.clone());
        let src = match &t {
            None => format!("{}{} := {}; {}", env_src(&env), p.src(), v.src(), dump),
            Some(t) => format!("{}{}: {} = {}; {}", env_src(&env), p.src(), t.src(), v.src(), dump),
        };
        (src, format!("assign {} {} {} {}", K, env_proto(&env), v.proto(), wrapped.proto()), false, vec![wrapped])
    } else if ctx < 80 {
        // lambda parameters against an argument list
        g.no_lit = true;
        let chain_param = forced_cell.borrow_mut().take();
        let args: Vec<V> = match (&v, &chain_param) {
            (_, Some(_)) => vec![v.clone()],
            (V::List(xs), None) => xs.clone(),
            (other, None) => vec![other.clone()],
        };
        let mut params: Vec<P> = match chain_param {
            Some(p) => vec![p],
            None => g.seq_items(rng, &args, depth.max(1)).into_iter().map(fix_minus).collect(),
        };
        // parameter syntax: core [: T] [= default]; no literals; normalise what the syntax cannot say
        params = params
            .into_iter()
            .map(|p| match p {
                P::Default(inner, d) => match *inner {
                    P::Anno(core, Some(t)) => P::Default(Box::new(P::Anno(core, Some(t))), d),
                    P::Anno(core, None) => P::Default(core, d),
                    core => P::Default(Box::new(core), d),
                },
                P::Anno(core, None) => *core,
                p => p,
            })
            .filter(|p| !p.has_lit())
            .collect();
        let psrc: Vec<String> = params
            .iter()
            .map(|p| match p {
                P::Default(inner, d) => match &**inner {
                    P::Anno(core, Some(t)) => format!("{}: {} = {}", core.src(), t.src(), d.src()),
                    core => format!("{} = {}", core.src(), d.src()),
                },
                P::Anno(core, Some(t)) => format!("{}: {}", core.src(), t.src()),
                p => p.src(),
            })
            .collect();
        let src = format!(
            "{}(\\{} -> {})({})",
            env_src(&env),
            psrc.join(", "),
            dump,
            args.iter().map(|a| a.src()).collect::<Vec<_>>().join(", ")
        );
        let req = format!(
            "bind {} {} [{}] {}",
            K,
            env_proto(&env),
            args.iter().map(|a| a.proto()).collect::<Vec<_>>().join(","),
            params.iter().map(|p| p.proto()).collect::<Vec<_>>().join(" ")
        );
        (src, req, false, params)
    } else if ctx < 90 {
        // catch clause
        let p = pat_for(&mut g, rng, &v);
        (
            format!("{}try throw {} catch {} -> {}", env_src(&env), v.src(), p.src(), dump),
            format!("fresh {} {} {} {}", K, env_proto(&env), v.proto(), p.proto()),
            false,
            vec![p],
        )
    } else {
        // for binding (the parser refuses literals here)
        g.no_lit = true;
        let p = pat_for(&mut g, rng, &v);
        (
            format!("{}r := null; for ({} <- [{}]) r = {}; r", env_src(&env), p.src(), v.src(), dump),
            format!("fresh {} {} {} {}", K, env_proto(&env), v.proto(), p.proto()),
            false,
            vec![p],
        )
    };
    let ctxname = if ctx < 40 { "switch" } else if ctx < 70 { "declare" } else if ctx < 80 { "lambda" } else if ctx < 90 { "catch" } else { "for" };
    let shape = pats.last().map(|p| p.shape()).unwrap_or_else(|| "noparams".into());
    Case {
        key: format!("{}/{}", ctxname, shape),
        src,
        req,
        switch,
        nontrivial: pats.iter().any(|p| !matches!(p, P::Ident(..) | P::Underscore)),
        arm: shape,
        has_or: pats.iter().any(|p| p.has_or()),
    }
}
fn finish_case(ctx: &str, _rng: &mut Rng, env: &[(usize, Ty, V)], v: V, p: P, dump: &str) -> Case {
    let src = format!("{}{} = {}; {}", env_src(env), p.src(), v.src(), dump);
    let req = format!("assign {} {} {} {}", K, env_proto(env), v.proto(), p.proto());
    Case {
        key: format!("{}/{}", ctx, p.shape()),
        src,
        req,
        switch: false,
        nontrivial: true,
        arm: p.shape(),
        has_or: p.has_or(),
    }
}

/// `v is T` for every value kind x every type, `type(v)`, `v is type(v)`
fn type_cases(rng: &mut Rng, n_random: usize) -> Vec<(String, String, String, String)> {
    // (key, src, req, arm)
    let mut vals: Vec<V> = vec![
        V::Null,
        V::Int(0),
        V::Int(5),
        V::Int(-3),
        V::Int(1i128 << 70),
        V::Rat(1, 2),
        V::Rat(4, 2),
        V::Rat(-3, 4),
        V::Float(0.0),
        V::Float(1.5),
        V::Float(-2.0),
        V::Float(f64::NAN),
        V::Float(f64::INFINITY),
        V::Complex(1.0, 2.0),
        V::Complex(1.0, 0.0),
        V::Str("".into()),
        V::Str("ab".into()),
        V::Str("\u{e9}".into()),
        V::List(vec![]),
        V::List(vec![V::Int(1), V::Int(2)]),
        V::Dict(vec![]),
        V::Dict(vec![(V::Int(1), V::Int(2))]),
        V::Vector(vec![V::Int(1), V::Float(2.0)]),
        V::Vector(vec![]),
        V::Bytes(vec![1, 2]),
        V::Bytes(vec![]),
        V::Range(1, 3),
        V::Range(1, 2),
        V::Range(3, 1),
        V::Adv(vec![V::Int(1), V::Int(2), V::Int(3)], 1, 0),
        V::StreamInf,
        V::Func(0),
        V::Func(1),
        V::Type(Ty::Int),
        V::Type(Ty::Struct(0)),
        V::Type(Ty::Sat(0)),
        V::Inst(0, vec![V::Int(1)]),
        V::Inst(1, vec![V::Int(1), V::Null]),
        V::Inst(2, vec![V::Int(1), V::Int(2), V::Int(3)]),
    ];
    for _ in 0..n_random {
        vals.push(gen_val(rng, 2));
    }
    let mut out = vec![];
    for v in &vals {
        for t in all_types() {
            // `sum` over float elements is float arithmetic: outside the model
            if t == Ty::Sat(7) && (v.proto().contains("f:") || v.proto().contains("c:")) {
                continue;
            }
            out.push((
                format!("is:{}", t.name()),
                format!("({}) is {}", v.src(), t.src()),
                format!("istype {} {}", t.name(), v.proto()),
                format!("is:{}x{}", t.name(), v.type_name()),
            ));
        }
        // v is type(v): the type name the model computes is sent back as the type to test
        out.push((
            "is-type-of".to_string(),
            format!("({}) is type({})", v.src(), v.src()),
            format!("istype {} {}", v.type_name(), v.proto()),
            format!("is-type-of:{}", v.type_name()),
        ));
        out.push((
            "type-of".to_string(),
            format!("str(type({}))", v.src()),
            format!("typeof {}", v.proto()),
            format!("type-of:{}", v.type_name()),
        ));
    }
    out
}

/// The work runs in a child process (`--worker`) that announces every program on stderr before
/// evaluating it: an abort of the interpreter (native stack overflow, e.g. an error message that
/// debug-prints a cyclic environment) then still yields a report naming the input that killed it.
fn supervise(args: &Args) {
    use std::io::{BufRead, BufReader};
    use std::process::{Command, Stdio};
    let exe = std::env::current_exe().expect("current_exe");
    let mut cmd = Command::new(exe);
    cmd.args(std::env::args().skip(1)).arg("--worker").stderr(Stdio::piped());
    let mut child = cmd.spawn().expect("cannot start worker");
    let err = child.stderr.take().unwrap();
    let mut last = String::new();
    let mut count = 0u64;
    for line in BufReader::new(err).lines() {
        let line = match line {
            Ok(l) => l,
            Err(_) => continue,
        };
        if let Some(rest) = line.strip_prefix("TRACE ") {
            last = rest.to_string();
            count += 1;
        } else {
            eprintln!("{}", line);
        }
    }
    let st = child.wait().expect("wait");
    if st.success() {
        return;
    }
    let mut rep = Report::new("C12", args);
    rep.rule = "worker process died; see notes".into();
    rep.evaluations = count;
    rep.notes.push(format!("the worker process ended with {:?} while evaluating the input of the filed disagreement", st));
    rep.case(&last, true);
    rep.judge("process-abort", &last, "abort (the interpreter process died: native stack overflow or similar)", "raise-or-value", "raise-or-value");
    rep.write(&args.out);
}


/// `T(v)` for every callable type x argument kinds: the kind of the result and `T(v) is T`
fn conv_cases(rng: &mut Rng, n_random: usize) -> Vec<(String, String, String, String, bool)> {
    // (key, src, req, arm, lenient: the outcome depends on an external parser)
    let mut vals: Vec<V> = vec![
        V::Null,
        V::Int(0),
        V::Int(-7),
        V::Int(1i128 << 70),
        V::Rat(7, 2),
        V::Rat(-7, 2),
        V::Rat(4, 2),
        V::Float(2.7),
        V::Float(-2.7),
        V::Float(0.0),
        V::Float(1e300),
        V::Float(f64::NAN),
        V::Float(f64::INFINITY),
        V::Float(f64::NEG_INFINITY),
        V::Complex(1.0, 2.0),
        V::Complex(1.0, 0.0),
        V::Str("12".into()),
        V::Str("-3".into()),
        V::Str("+4".into()),
        V::Str("1.5".into()),
        V::Str("x".into()),
        V::Str("".into()),
        V::Str(" 1".into()),
        V::Str("1/2".into()),
        V::Str("1e3".into()),
        V::Str("a\u{e9}".into()),
        V::List(vec![]),
        V::List(vec![V::Int(1), V::Int(2)]),
        V::List(vec![V::Int(1), V::Int(300)]),
        V::List(vec![V::Int(1), V::Str("a".into())]),
        V::List(vec![V::List(vec![V::Int(1), V::Int(2)]), V::List(vec![V::Str("k".into()), V::Null])]),
        V::List(vec![V::List(vec![V::Int(1), V::Int(2), V::Int(3)])]),
        V::List(vec![V::List(vec![V::List(vec![]), V::Int(2)])]),
        V::Dict(vec![]),
        V::Dict(vec![(V::Int(1), V::Int(2))]),
        V::Vector(vec![V::Int(1), V::Float(2.0)]),
        V::Bytes(vec![1, 200]),
        V::Range(1, 3),
        V::Range(3, 1),
        V::StreamInf,
        V::Func(0),
        V::Type(Ty::Int),
        V::Inst(0, vec![V::Int(1)]),
    ];
    for _ in 0..n_random {
        vals.push(gen_val(rng, 2));
    }
    let types = [
        Ty::Int, Ty::Rational, Ty::Float, Ty::Number, Ty::List, Ty::Str, Ty::Bytes, Ty::Vector, Ty::Dict,
        Ty::Stream, Ty::Type, Ty::Struct(0), Ty::Struct(1), Ty::Struct(2), Ty::Func, Ty::Any, Ty::Null,
        Ty::Complex,
    ];
    let mut out = vec![];
    for v in &vals {
        for t in &types {
            // collecting an infinite stream never finishes
            let has_inf = v.proto().contains("stream-inf");
            if has_inf && matches!(t, Ty::List | Ty::Bytes | Ty::Vector | Ty::Dict | Ty::Str) {
                continue;
            }
            let lenient = matches!(v, V::Str(_)) && matches!(t, Ty::Rational | Ty::Float | Ty::Number);
            out.push((
                format!("conv:{}", t.name()),
                format!("(\\w -> [str(type(w)), w is {}])({}({}))", t.src(), t.src(), v.src()),
                format!("conv {} {}", t.name(), v.proto()),
                format!("conv:{}x{}", t.name(), v.type_name()),
                lenient,
            ));
        }
    }
    out
}

fn main() {
    let args = parse_args();
    if args.replay.is_none() && !args.extra.iter().any(|a| a == "--worker") {
        supervise(&args);
        return;
    }
    install_quiet_panic_hook();
    let mut rep = Report::new("C12", &args);
    rep.rule = "patterns generated from a value (so that about half accept it) or from another value, nesting <= 4: \
                identifiers, underscore, annotations with every builtin type / struct types / satisfying types / non-types, \
                defaults, (un)delimited sequences with a splat at every position (plain and annotated), trailing defaults, \
                wrong lengths, two splats, non-default after default, or / and, literals (incl. literally), every destructuring \
                builtin (+ - * / .+ +. comparison chains incl. 2-3 free slots (mixed with literals) against sequences of slots-1 .. slots+2 items, a non-destructuring builtin), unparenthesised infix operator patterns with 2-3 operators of different precedence levels (comparisons, + - .+ +. ++, * / // %) over literals and one or two binders, struct patterns; x values of every kind \
                (null, small/big ints, rationals incl. integral ones, floats incl. nan/inf/-0.0, complex, ASCII and non-ASCII strings, \
                lists, dicts, vectors, bytes, finite and infinite streams, functions, types, struct instances); x binding contexts \
                (switch arms, `:=` / `: T =`, `=` on typed existing variables incl. index paths, lambda parameters, catch, for). \
                Observed: which arm ran, the values of all pool names afterwards, raised / panicked. Plus `v is T` for every value \
                kind x every type, `type(v)`, `v is type(v)`, and `T(v)` for every callable type x argument kind (kind of the result, `T(v) is T`); plus assignment histories on annotated variables. A case is non-trivial \
                when its pattern is more than a bare name; distinct = distinct source programs"
        .into();
    let mut rng = Rng::new(args.seed);
    let (n_pat, n_type_random, n_hist) = match args.tier.as_str() {
        "thorough" => (120_000usize, 600usize, 25_000usize),
        _ => (5_000usize, 20usize, 1_200usize),
    };
    let n_for = match args.tier.as_str() {
        "thorough" => 20_000usize,
        _ => 900usize,
    };

    let mut interp = Interp::new();
    let setup = |it: &Interp| {
        if let Outcome::Ok(_) = it.eval(PRELUDE) {
        } else {
            panic!("prelude failed");
        }
    };
    setup(&interp);
    let trace = args.replay.is_none();
    let wrap = |src: &str| {
        if trace {
            eprintln!("TRACE {}", src);
        }
        format!("(\\ -> ({}))()", src)
    };

    // replay mode
    if let Some(path) = &args.replay {
        let text = std::fs::read_to_string(path).expect("replay file");
        for line in text.lines() {
            if let Some(rest) = line.strip_prefix("input: ") {
                let (src, req) = match rest.find("  ## ") {
                    Some(p) => (&rest[..p], Some(&rest[p + 5..])),
                    None => (rest, None),
                };
                let out = interp.eval(&wrap(src));
                println!("source: {}", src);
                println!("rust: {}", out.detail());
                if let Some(req) = req {
                    let r = run_driver(&args.driver, &[req.to_string()]);
                    println!("request: {}", req);
                    println!("model (impl <tab> spec): {}", r[0]);
                }
            }
        }
        return;
    }

    // at most `CAP` disagreements are filed per key (the report keeps 400 in total)
    let mut filed: std::collections::HashMap<String, usize> = std::collections::HashMap::new();
    let mut suppressed = 0usize;
    // ---- type predicate cases
    let tcs = type_cases(&mut rng, n_type_random);
    let mut touts = vec![];
    for (_, src, _, _) in &tcs {
        touts.push(interp.eval(&wrap(src)));
    }
    let treqs: Vec<String> = tcs.iter().map(|t| t.2.clone()).collect();
    let tresp = run_driver(&args.driver, &treqs);
    for (((key, src, req, arm), o), r) in tcs.iter().zip(touts.iter()).zip(tresp.iter()) {
        let input = format!("{}  ## {}", src, req);
        let (im, sp) = split_resp(r);
        let rust = match o {
            Outcome::Ok(s) if key == "type-of" => {
                // "<NAME p:0>"
                let text = String::from_utf8_lossy(&unhex(&s[2..])).to_string();
                let name = text.trim_start_matches('<').split(' ').next().unwrap_or("").to_string();
                // struct types print their own name; the model names them S<i>
                format!("ok {}", name)
            }
            o => o.class(),
        };
        rep.case(&input, true);
        rep.arm(arm);
        rep.outcome(match o {
            Outcome::Ok(_) => "ok",
            Outcome::Throw(_) => "throw",
            Outcome::Panic(_) => "panic",
            _ => "other",
        });
        if rust != im || rust != sp {
            let n = filed.entry(key.clone()).or_insert(0);
            *n += 1;
            if *n > CAP {
                suppressed += 1;
                continue;
            }
        }
        rep.judge(key, &input, &rust, &im, &sp);
    }

    // ---- conversions: `T(v)` lands in T
    let ccs = conv_cases(&mut rng, n_type_random);
    let mut couts = vec![];
    for c in &ccs {
        couts.push(interp.eval(&wrap(&c.1)));
    }
    let creqs: Vec<String> = ccs.iter().map(|c| c.2.clone()).collect();
    let cresp = run_driver(&args.driver, &creqs);
    for (((key, src, req, arm, lenient), o), r) in ccs.iter().zip(couts.iter()).zip(cresp.iter()) {
        let input = format!("{}  ## {}", src, req);
        let (mut im, mut sp) = split_resp(r);
        let rust = match o {
            Outcome::Ok(s) => {
                // "[s:<hex of "<NAME p:0>">,b]"
                let inner = &s[1..s.len() - 1];
                let (a, b) = inner.rsplit_once(',').unwrap_or((inner, ""));
                let text = String::from_utf8_lossy(&unhex(a.trim_start_matches("s:"))).to_string();
                let name = text.trim_start_matches('<').split(' ').next().unwrap_or("").to_string();
                format!("ok {};{}", name, b)
            }
            o => o.class(),
        };
        if *lenient && (rust == "throw" || rust.ends_with(";1")) {
            // whether an external parser accepts this text is not modelled; the kind and `is T` are
            im = rust.clone();
            sp = rust.clone();
        }
        rep.case(&input, true);
        rep.arm(arm);
        rep.outcome(match o {
            Outcome::Ok(_) => "ok",
            Outcome::Throw(_) => "throw",
            Outcome::Panic(_) => "panic",
            _ => "other",
        });
        if rust != im || rust != sp {
            let n = filed.entry(key.clone()).or_insert(0);
            *n += 1;
            if *n > CAP {
                suppressed += 1;
                continue;
            }
        }
        rep.judge(key, &input, &rust, &im, &sp);
    }

    // ---- pattern cases
    let mut cases: Vec<Case> = vec![];
    for c in corpus() {
        cases.push(c);
    }
    while cases.len() < n_pat {
        let mut crng = rng.fork();
        cases.push(gen_pattern_case(&mut crng));
    }
    let mut rust_out = vec![];
    for c in &cases {
        let o = interp.eval(&wrap(&c.src));
        if let Outcome::Panic(_) = o {
            interp = Interp::new();
            setup(&interp);
        }
        rust_out.push(o);
    }
    let reqs: Vec<String> = cases.iter().map(|c| c.req.clone()).collect();
    let resp = run_driver(&args.driver, &reqs);
    for ((c, o), r) in cases.iter().zip(rust_out.iter()).zip(resp.iter()) {
        let input = format!("{}  ## {}", c.src, c.req);
        if let Outcome::ParseErr(m) = o {
            if rep.notes.len() < 20 {
                rep.notes.push(format!("generator produced unparsable source: {} ({})", c.src, m));
            }
            rep.outcome("parse-error(skipped)");
            continue;
        }
        let (im, sp) = split_resp(r);
        if sp.ends_with("\tunmodelled") {
            rep.outcome("unmodelled float arithmetic (skipped)");
            continue;
        }
        let sp = sp.split('\t').next().unwrap_or("").to_string();
        let rust = rust_class(o, c.switch);
        rep.case(&input, c.nontrivial);
        rep.arm(&c.arm);
        rep.outcome(match o {
            Outcome::Ok(_) => "ok",
            Outcome::Throw(_) => "throw",
            Outcome::Panic(_) => "panic",
            _ => "other",
        });
        // the one place where the code is known to deviate from the Spec: a failed alternative of `or`
        // is not rolled back
        let key = if c.has_or && rust == im && rust != sp { "or-no-rollback".to_string() } else { c.key.clone() };
        if rust != im || rust != sp {
            let n = filed.entry(key.clone()).or_insert(0);
            *n += 1;
            if *n > CAP {
                suppressed += 1;
                continue;
            }
        }
        rep.judge(&key, &input, &rust, &im, &sp);
    }

    // ---- assignment histories on annotated variables
    let mut hs = vec![];
    for _ in 0..n_hist {
        let mut hrng = rng.fork();
        let len = 1 + hrng.below(6) as usize;
        hs.push(gen_history(&mut hrng, len));
    }
    let mut houts = vec![];
    for (src, _, _) in &hs {
        let o = interp.eval(&wrap(src));
        if let Outcome::Panic(_) = o {
            interp = Interp::new();
            setup(&interp);
        }
        houts.push(o);
    }
    let hreqs: Vec<String> = hs.iter().map(|h| h.1.clone()).collect();
    let hresp = run_driver(&args.driver, &hreqs);
    for (((src, req, kinds), o), r) in hs.iter().zip(houts.iter()).zip(hresp.iter()) {
        let input = format!("{}  ## {}", src, req);
        if let Outcome::ParseErr(m) = o {
            if rep.notes.len() < 20 {
                rep.notes.push(format!("generator produced unparsable source: {} ({})", src, m));
            }
            rep.outcome("parse-error(skipped)");
            continue;
        }
        let (im, sp) = split_resp(r);
        let rust = match o {
            Outcome::Ok(s) => format!("ok {}", s.replace(&unbound_hex(), "U")),
            o => o.class(),
        };
        rep.case(&input, true);
        // how far the history ran and whether it ended in a raise
        let ran = rust.matches("]]]").count().max(rust.matches("]],").count());
        let _ = ran;
        let raised = rust.contains("s:7261697365");
        for (i, k) in kinds.iter().enumerate() {
            rep.arm(&format!("hist:{}", k));
            let _ = i;
        }
        rep.outcome(match o {
            Outcome::Ok(_) => if raised { "history ended by a raise" } else { "history completed" },
            Outcome::Throw(_) => "throw",
            Outcome::Panic(_) => "panic",
            _ => "other",
        });
        // the first statement kind at which the three answers part ways keys the disagreement
        let key = format!("hist/{}", kinds.last().map(|s| s.as_str()).unwrap_or("empty"));
        if rust != im || rust != sp {
            let n = filed.entry(key.clone()).or_insert(0);
            *n += 1;
            if *n > CAP {
                suppressed += 1;
                continue;
            }
        }
        rep.judge(&key, &input, &rust, &im, &sp);
    }

    // ---- `for` clauses whose patterns hold expressions that change over the loop
    let mut fs = for_corpus();
    for _ in 0..n_for {
        let mut frng = rng.fork();
        fs.push(gen_for(&mut frng));
    }
    let mut fouts = vec![];
    for (src, _, _) in &fs {
        let o = interp.eval(&wrap(src));
        if let Outcome::Panic(_) = o {
            interp = Interp::new();
            setup(&interp);
        }
        fouts.push(o);
    }
    let freqs: Vec<String> = fs.iter().map(|h| h.1.clone()).collect();
    let fresp = run_driver(&args.driver, &freqs);
    for (((src, req, kind), o), r) in fs.iter().zip(fouts.iter()).zip(fresp.iter()) {
        let input = format!("{}  ## {}", src, req);
        if let Outcome::ParseErr(m) = o {
            if rep.notes.len() < 20 {
                rep.notes.push(format!("generator produced unparsable source: {} ({})", src, m));
            }
            rep.outcome("parse-error(skipped)");
            continue;
        }
        let (im, sp) = split_resp(r);
        let rust = match o {
            Outcome::Ok(s) => format!("ok {}", s),
            o => o.class(),
        };
        rep.case(&input, true);
        rep.arm(kind);
        let raised = rust.contains("s:7261697365");
        rep.outcome(match o {
            Outcome::Ok(_) => if raised { "loop ended by a raise" } else { "loop completed" },
            Outcome::Throw(_) => "throw",
            Outcome::Panic(_) => "panic",
            _ => "other",
        });
        let key = kind.clone();
        if rust != im || rust != sp {
            let n = filed.entry(key.clone()).or_insert(0);
            *n += 1;
            if *n > CAP {
                suppressed += 1;
                continue;
            }
        }
        rep.judge(&key, &input, &rust, &im, &sp);
    }

    if suppressed > 0 {
        rep.notes.push(format!("{} further disagreements under keys that already had {} filed were not listed", suppressed, CAP));
    }
    rep.write(&args.out);
}


/// hand-picked `for` programs (the annotation / callee is not constant over the loop)
fn for_corpus() -> Vec<(String, String, String)> {
    let decl = "r := []; i := 0; n := 0; ts := [int, str]; tv := int; cf := <; cs := [<, .+]; t := \\ -> (n += 1; int); u := \\ -> (n += 1; <); ";
    let env = "E(0,anything,[];1,anything,0;2,anything,0;3,anything,[T:int,T:str];4,anything,T:int;5,anything,F20;6,anything,[F20,F15])";
    let mk = |clauses: &str, body: &str, cp: &str, bp: &str, kind: &str| {
        (
            format!("{}try (for ({}) ({})) catch e -> (r append= \"raise\"); [r, i, n]", decl, clauses, body),
            format!("for 3 {} {} {}", env, cp, bp),
            format!("corpus:for/{}", kind),
        )
    };
    vec![
        mk("a0: ts[i] <- [1, 'a']", "i += 1; r append= a0", "Cn(A(I10,x3.1);c[1,s:61])", "Soplus(I1,1) Gl(0,10)", "index"),
        mk("a0: ts[i] <- [1, 2]", "r append= (a0 is ts[i]); i += 1", "Cn(A(I10,x3.1);c[1,2])", "Gi(0,10,x3.1) Soplus(I1,1)", "index-stale"),
        mk("a1, (a0: ts[i]) <<- [7, 'a']", "i += 1; r append= a1; r append= a0", "Ci(S(I11,A(I10,x3.1));c[7,s:61])", "Soplus(I1,1) Gl(0,11) Gl(0,10)", "item"),
        mk("a0: t() <- [1, 2, 3]", "null", "Cn(A(I10,n2(cT:int));c[1,2,3])", "", "counted"),
        mk("a0: t() <- []", "null", "Cn(A(I10,n2(cT:int));c[])", "", "counted-empty"),
        mk("a0: zz <- []", "null", "Cn(A(I10,v9);c[])", "", "undefined-empty"),
        mk("a0: tv <- [1, 'a']", "r append= a0; tv = str", "Cn(A(I10,v4);c[1,s:61])", "Gl(0,10) Sa(I4,T:str)", "var"),
        mk("cf(a0, a1) <- [[1, 2], [3, 4, 5]]", "r append= a0; cf = .+", "Cn(K(v5;I10,I11);c[[1,2],[3,4,5]])", "Gl(0,10) Sa(I5,F15)", "callee-var"),
        mk("cs[i](a0, a1) <- [[1, 2], [3, 4, 5]]", "r append= a1; i += 1", "Cn(K(x6.1;I10,I11);c[[1,2],[3,4,5]])", "Gl(0,11) Soplus(I1,1)", "callee-index"),
        mk("u()(a0, a1) <- [[1, 2], [4, 5]]", "r append= a1", "Cn(K(n2(cF20);I10,I11);c[[1,2],[4,5]])", "Gl(0,11)", "callee-counted"),
        mk("a2 <- [[1], ['a']]; a0: ts[i] <- a2", "r append= a0; i += 1", "Cn(I12;c[[1],[s:61]]) Cn(A(I10,x3.1);v12)", "Gl(0,10) Soplus(I1,1)", "nested"),
    ]
}

/// inputs of past findings and hand-picked boundary cases, run first
fn corpus() -> Vec<Case> {
    let dump = dump_src();
    let mk = |key: &str, src: String, req: String, switch: bool, has_or: bool| Case {
        key: key.to_string(),
        src,
        req,
        switch,
        nontrivial: true,
        arm: format!("corpus:{}", key),
        has_or,
    };
    let mut v = vec![];
    // F12: splat with fewer items than fixed positions / an empty splat
    for (val, vp) in [("[1]", "[1]"), ("[1, 2]", "[1,2]"), ("[]", "[]"), ("[1, 2, 3]", "[1,2,3]")] {
        v.push(mk(
            "declare/seq+splat",
            format!("x0, ...x1, x2 := {}; {}", val, dump),
            format!("assign {} E() {} S(A(I0),A(P(I1)),A(I2))", K, vp),
            false,
            false,
        ));
        v.push(mk(
            "declare/seq+splat",
            format!("x0, ...x1 := {}; {}", val, dump),
            format!("assign {} E() {} S(A(I0),A(P(I1)))", K, vp),
            false,
            false,
        ));
        v.push(mk(
            "switch/seq+splat",
            format!("switch ({}) case ...x0, x1 -> [0, {}] case _ -> [1, {}]", val, dump, dump),
            format!("switch {} E() {} S(P(I0),I1) U", K, vp),
            true,
            false,
        ));
    }
    v.push(mk(
        "lambda/seq+splat+defaults",
        format!("(\\x0, x1: int = 3, ...x2 -> {})(1)", dump),
        format!("bind {} E() [1] I0 D(A(I1,T:int),3) P(I2)", K),
        false,
        false,
    ));
    // zero factor in a `*` pattern
    v.push(mk(
        "switch/destr:*",
        format!("switch (5) case 0 * x0 -> [0, {}] case _ -> [1, {}]", dump, dump),
        format!("switch {} E() 5 Btimes(V(0),I0) U", K),
        true,
        false,
    ));
    v.push(mk(
        "switch/destr:*",
        format!("switch (0) case x0 * 0 -> [0, {}] case _ -> [1, {}]", dump, dump),
        format!("switch {} E() 0 Btimes(I0,V(0)) U", K),
        true,
        false,
    ));
    // non-ASCII string against a sequence pattern
    v.push(mk(
        "declare/seq",
        format!("x0, := \"\u{e9}\"; {}", dump),
        format!("assign {} E() s:c3a9 S(A(I0))", K),
        false,
        false,
    ));
    v.push(mk(
        "declare/seq",
        format!("x0, x1 := \"\u{e9}a\"; {}", dump),
        format!("assign {} E() s:c3a961 S(A(I0),A(I1))", K),
        false,
        false,
    ));
    // an infinite stream against sequence patterns: a type error, not a hang
    v.push(mk(
        "switch/seq",
        format!("switch (repeat(1)) case x0, x1 -> [0, {}] case ...x0, -> [1, {}] case [x0] -> [2, {}] case x0 -> [3, {}]", dump, dump, dump, dump),
        format!("switch {} E() stream-inf S(I0,I1) S(P(I0)) L(I0) I0", K),
        true,
        false,
    ));
    // a list-backed stream whose head has been consumed, matched from the other end
    for form in 0..3u8 {
        let adv = V::Adv(vec![V::Int(1), V::Int(2), V::Int(3)], 1, form);
        v.push(mk(
            "declare/anno>destr:+.",
            format!("(x0 +. x1) := {}; {}", adv.src(), dump),
            format!("assign {} E() {} A(Bappend(I0,I1))", K, adv.proto()),
            false,
            false,
        ));
        v.push(mk(
            "switch/seq+splat",
            format!("switch ({}) case ...x0, x1 -> [0, {}] case _ -> [1, {}]", adv.src(), dump, dump),
            format!("switch {} E() {} S(P(I0),I1) U", K, adv.proto()),
            true,
            false,
        ));
    }
    // the body of the arm that matched raises: the error leaves the switch, no other arm runs
    for (sw, kind) in [
        ("swr := try (switch (1) case 1 -> (x7 append= 0; throw \"boom\") case _ -> (x7 append= 1; [1, DUMP])) catch e -> (if (e == \"boom\") \"B\" else \"N\"); [swr, x7]", "statement"),
        ("swr := try ((\\switch case 1 -> (x7 append= 0; throw \"boom\") case _ -> (x7 append= 1; [1, DUMP]))(1)) catch e -> (if (e == \"boom\") \"B\" else \"N\"); [swr, x7]", "lambda"),
    ] {
        let mut c = mk(
            "switch-body/lit",
            format!("x7: anything = []; {}", sw.replace("DUMP", &dump)),
            format!("switchb {} E(7,anything,[]) 1 lt V(1) lo U", K),
            false,
            false,
        );
        c.arm = format!("corpus:switch-body/{}", kind);
        v.push(c);
    }
    {
        let mut c = mk(
            "switch-body/anno",
            format!("x7: anything = []; swr := try (switch (5) case (x0: int) -> (x7 append= 0; throw \"boom\") case (x1: str) -> (x7 append= 1; [1, {}])) catch e -> (if (e == \"boom\") \"B\" else \"N\"); [swr, x7]", dump),
            format!("switchb {} E(7,anything,[]) 5 lt A(I0,T:int) lo A(I1,T:str)", K),
            false,
            false,
        );
        c.arm = "corpus:switch-body/no-later-match".into();
        v.push(c);
    }
    // a multi-slot comparison needs exactly as many items as slots
    v.push(mk(
        "switch/destr:cmp",
        format!("switch ([1, 2, 3]) case (x0 < x1) -> [0, {}] case (x0 < x1 < x2) -> [1, {}] case _ -> [2, {}]", dump, dump, dump),
        format!("switch {} E() [1,2,3] Bcmp:lt(I0,I1) Bcmp:lt:lt(I0,I1,I2) U", K),
        true,
        false,
    ));
    v.push(mk(
        "declare/anno>destr:cmp",
        format!("(x0 < x1) := [1, 2, 3]; {}", dump),
        format!("assign {} E() [1,2,3] A(Bcmp:lt(I0,I1))", K),
        false,
        false,
    ));
    v.push(mk(
        "declare/anno>destr:cmp",
        format!("(x0 < 5 < x1) := [1, 9, 10]; {}", dump),
        format!("assign {} E() [1,9,10] A(Bcmp:lt:lt(I0,V(5),I1))", K),
        false,
        false,
    ));
    // or without rollback
    v.push(mk(
        "switch/or",
        format!("switch ([5, 2]) case ((x0, 1) or (x0, 2)) -> [0, {}] case _ -> [1, {}]", dump, dump),
        format!("switch {} E() [5,2] O(S(I0,V(1)),S(I0,V(2))) U", K),
        true,
        true,
    ));
    v
}
