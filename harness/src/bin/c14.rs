//! C14 sweep (fault enumeration, not proof): every global builtin that does not touch files, processes,
//! the network, the clock, sleep or stdin, applied to every tuple of 0..2 arguments (sampled tuples of
//! 3) from a pool covering all value kinds and boundary values.  Each call must end with a value or a
//! catchable error: a panic, an abort or a hang is a violation.  Shards run in child processes with a
//! per-case watchdog, so an abort or a hang kills only that shard and is attributed to the case.
use noulith::{Func, Obj};
use std::io::Write;
use std::sync::atomic::{AtomicU64, Ordering};
use std::sync::Arc;
use vharness::coregen::*;
use vharness::*;

const EXCLUDED: &[&str] = &[
    // files / processes / network / clock / sleep / stdin / debugging hooks
    "append_file", "console_log", "flush", "input", "interact", "interact_lines", "list_files", "now", "time", "read",
    "read_bytes", "read_compressed", "read_file", "read_file?", "read_file_bytes", "read_file_bytes?", "request",
    "request_bytes", "request_json", "run_process", "sleep", "write_file", "__internal_debug", "import", "exit",
    "par_each", "par_map",
];
/// builtins whose result size is exponential / linear in a NUMERIC argument: skipped when an argument is
/// astronomically large (resource exhaustion on astronomically large requests is not in the property)
const HEAVY: &[&str] = &[
    "^", "<<", ">>", "$*", "*$", ".*", "*.", "**", "^^", "factorize", "is_prime", "iota", "repeat", "cycle", "til", "to",
    "permutations", "combinations", "subsequences", "random_bytes", "str_radix", "factorial", "!", "lcm", "gcd",
    "choose", "b_spline", "window", "group", "take", "drop", "random_range", "×", "⨯", "···", "..",
];

struct PoolVal {
    src: &'static str,
    big: bool,
}
const POOL: &[PoolVal] = &[
    PoolVal { src: "null", big: false },
    PoolVal { src: "0", big: false },
    PoolVal { src: "1", big: false },
    PoolVal { src: "(0-1)", big: false },
    PoolVal { src: "3", big: false },
    PoolVal { src: "(2^64)", big: true },
    PoolVal { src: "(0-2^63)", big: true },
    PoolVal { src: "(0-9223372036854775807-1)", big: true },
    PoolVal { src: "(1/2)", big: false },
    PoolVal { src: "1.5", big: false },
    PoolVal { src: "(0.0/0.0)", big: false },
    PoolVal { src: "(1.0/0.0)", big: false },
    PoolVal { src: "1i", big: false },
    PoolVal { src: "\"\"", big: false },
    PoolVal { src: "\"ab\"", big: false },
    PoolVal { src: "\"\\u{e9}x\"", big: false },
    PoolVal { src: "\"a\"", big: false },
    PoolVal { src: "\"\\u{d7ff}\"", big: false },
    PoolVal { src: "\"\\u{e000}\"", big: false },
    PoolVal { src: "[]", big: false },
    PoolVal { src: "[1, 2]", big: false },
    PoolVal { src: "[[1], \"a\"]", big: false },
    PoolVal { src: "{}", big: false },
    PoolVal { src: "{1: 2, \"a\": [3]}", big: false },
    PoolVal { src: "{:0, 1: 2}", big: false },
    PoolVal { src: "V(1, 2)", big: false },
    PoolVal { src: "V()", big: false },
    PoolVal { src: "B\"ab\"", big: false },
    PoolVal { src: "B\"\\xff\"", big: false },
    PoolVal { src: "(1 to 3)", big: false },
    PoolVal { src: "(\\x -> x)", big: false },
    PoolVal { src: "(\\x, y -> x)", big: false },
    PoolVal { src: "+", big: false },
    PoolVal { src: "len", big: false },
    // containers that are not valid keys only because of something nested inside them
    PoolVal { src: "{1: len}", big: false },
    PoolVal { src: "[{0: (\\x -> x)}]", big: false },
    // finite streams whose production raises part-way (the error must surface as a catchable error in
    // every consumer, and must end the stream)
    PoolVal { src: "(iterate(0, \\x -> if (x > 3) throw \"boom\" else x + 1) lazy_filter (\\x -> x % 2 == 0))", big: false },
    PoolVal { src: "([1, 0, 2] lazy_map (\\x -> 1 // x))", big: false },
    // list-backed streams that have been advanced (position > 0): random access, negative indices and
    // forcing must all be relative to the position
    PoolVal { src: "(stream([10, 20, 30]) drop 2)", big: false },
    PoolVal { src: "tail(stream(\"abc\"))", big: false },
    // lazy streams stored INSIDE containers (index assignment has to force them at every level)
    PoolVal { src: "[(1 to 3), 5]", big: false },
    PoolVal { src: "{1: (1 to 3), \"a\": [(1 to 2)]}", big: false },
    // texts of the builtins' own mini-languages (axis specs of `rearrange`, regular expressions, format and
    // radix texts): well-formed but inconsistent specs must raise, not crash
    PoolVal { src: "\"a -> a b\"", big: true },
    PoolVal { src: "\"a b -> b a\"", big: true },
    PoolVal { src: "\"(a b) c -> a (b c d)\"", big: true },
    PoolVal { src: "\"(a|b)*[c-\"", big: true },
    PoolVal { src: "[[1, 2], [3, 4]]", big: false },
];
const QUICK_POOL: &[usize] = &[0, 1, 2, 3, 5, 7, 8, 9, 10, 13, 14, 16, 17, 18, 19, 20, 22, 23, 25, 27, 28, 29, 30, 32, 34, 35, 36, 37, 38, 39, 40, 41, 42, 43, 46];

#[derive(Clone)]
struct Case {
    id: u64,
    name: String,
    args: Vec<usize>,
}

fn builtin_names(it: &Interp) -> Vec<String> {
    let env = it.env.borrow();
    let mut names: Vec<String> = env
        .vars
        .iter()
        .filter(|(_, (_, v))| matches!(&*v.borrow(), Obj::Func(..)))
        .map(|(k, _)| k.clone())
        .collect();
    names.sort();
    names
}

fn build_cases(tier: &str, seed: u64, names: &[String]) -> Vec<Case> {
    let pool: Vec<usize> = if tier == "thorough" { (0..POOL.len()).collect() } else { QUICK_POOL.to_vec() };
    let mut rng = Rng::new(seed);
    let mut cases = vec![];
    let mut id = 0u64;
    let mut push = |name: &str, args: Vec<usize>, cases: &mut Vec<Case>| {
        let heavy = HEAVY.contains(&name) && args.iter().any(|&a| POOL[a].big);
        if !heavy {
            cases.push(Case { id, name: name.to_string(), args });
        }
        id += 1;
    };
    let n3 = if tier == "thorough" { 400 } else { 25 };
    for name in names {
        if EXCLUDED.contains(&name.as_str()) {
            continue;
        }
        push(name, vec![], &mut cases);
        for &a in &pool {
            push(name, vec![a], &mut cases);
        }
        for &a in &pool {
            for &b in &pool {
                push(name, vec![a, b], &mut cases);
            }
        }
        for _ in 0..n3 {
            let t = vec![*rng.pick(&pool), *rng.pick(&pool), *rng.pick(&pool)];
            push(name, t, &mut cases);
        }
    }
    cases
}

fn case_text(c: &Case) -> String {
    format!("{}({})", c.name, c.args.iter().map(|&a| POOL[a].src).collect::<Vec<_>>().join(", "))
}

#[repr(C)]
struct Rlimit {
    cur: u64,
    max: u64,
}
extern "C" {
    fn setrlimit(resource: i32, rlim: *const Rlimit) -> i32;
}

fn child(args: &Args) {
    let shard: u64 = args.extra[1].parse().unwrap();
    let nshards: u64 = args.extra[2].parse().unwrap();
    let from: u64 = args.extra[3].parse().unwrap();
    // address-space limit: a runaway allocation aborts this child only
    unsafe {
        let lim = Rlimit { cur: 6 << 30, max: 6 << 30 };
        setrlimit(9, &lim);
    }
    install_quiet_panic_hook();
    let it = Interp::new();
    let names = builtin_names(&it);
    let cases = build_cases(&args.tier, args.seed, &names);
    let pool_vals: Vec<Obj> = POOL.iter().map(|p| it.eval_obj(p.src).unwrap_or(Obj::Null)).collect();
    let _ = it.eval_obj("canary := 42");
    let (started, current) = start_watchdog();
    let out = std::io::stdout();
    for (k, c) in cases.iter().enumerate() {
        if (k as u64) % nshards != shard || c.id < from {
            continue;
        }
        if let Some(o) = only_case() {
            if c.id != o {
                continue;
            }
        }
        let f = {
            let env = it.env.borrow();
            match env.vars.get(&c.name) {
                Some((_, v)) => v.borrow().clone(),
                None => continue,
            }
        };
        let argv: Vec<Obj> = c.args.iter().map(|&a| pool_vals[a].clone()).collect();
        {
            let mut o = out.lock();
            let _ = writeln!(o, "S\t{}", c.id);
            let _ = o.flush();
        }
        let now = std::time::SystemTime::now().duration_since(std::time::UNIX_EPOCH).unwrap().as_millis() as u64;
        started.store(now, Ordering::SeqCst);
        current.store(c.id, Ordering::SeqCst);
        noulith::verif_set_fuel(2_000_000);
        let env = it.env.clone();
        let r = std::panic::catch_unwind(std::panic::AssertUnwindSafe(|| match &f {
            Obj::Func(ff, _) => match Func::run(ff, &env, argv) {
                Ok(o) => {
                    // rendering the result must not crash either
                    let _ = canon(&o);
                    "ok"
                }
                Err(_) => "throw",
            },
            _ => "not-func",
        }));
        noulith::verif_set_fuel(u64::MAX);
        current.store(u64::MAX, Ordering::SeqCst);
        let class = match r {
            Ok(c) => c.to_string(),
            Err(_) => "panic".to_string(),
        };
        let _ = it.take_output();
        let mut o = out.lock();
        let _ = writeln!(o, "R\t{}\t{}", c.id, class);
        // the interpreter must still be usable, and unrelated variables keep their values
        if class != "ok" && k % 37 == 0 {
            let ok = matches!(it.eval("[1 + 1, canary]"), Outcome::Ok(ref s) if s == "[2,42]");
            let _ = writeln!(o, "U\t{}\t{}", c.id, if ok { "usable" } else { "BROKEN" });
        }
    }
    println!("D");
}

const STMT_TEMPLATES: &[&str] = &[
    "x := A; x[B] = C; x",
    "x := A; x[B] += C; x",
    "x := A; x[B] $= C; x",
    "x := A; x[B] append= C; x",
    "x := A; x[B][C] = 1; x",
    "x := A; pop x[B]; x",
    "x := A; remove x[B]; x",
    "x := A; remove x[B:C]; x",
    "x := A; every x[B:C] = 0; x",
    "x := A; every x[B:] += C; x",
    "x := A; x{B = C}",
    "x := A; consume x[B]; x",
    "A[B]",
    "A[B:C]",
    "A[B:]",
    "A[:C]",
    "a, b := A; [a, b]",
    "a, ...b := A; [a, b]",
    "a, ...b, c := A; [a, b, c]",
    "a, b = 1 := A",
    "switch (A) case B -> 1 case _ -> 2",
    "switch (A) case [x, B] -> x case _ -> 2",
    "switch (A) case x + B -> x case _ -> 2",
    "switch (A) case x .+ y -> [x, y] case xs +. y -> [xs, y] case _ -> 2",
    "(for (p <- A) yield p)",
    "(for (p, q <<- A) yield [p, q])",
    "(for (p <- A) yield p: B)",
    "x: B = A; x",
    "x := A; swap x, x[B]; x",
    "A B C",
    "F\"{A #B}\"",
    "f := \\a, ...b, c = B -> [a, b, c]; f(...A)",
    "x := A; x::precedence = B; x",
    "struct Pt(px, py = B); p := Pt(A); p[px] = C; p",
    "{A: B}",
    "{A, B}",
    "x := {}; x[A] = B; x",
    "x := {:0}; x[A] += 1; x",
    "if (A) 1 else 2",
    "A and B",
    "A or B",
    "A ?? B",
    "while (A) break",
    "x := A; x .= B; x",
    "a, b = A; [a, b]",
    "f := \\a, b -> [a, b]; f(...A)",
    "memo := memoize(\\k -> 1); memo(A)",
    "x := A; x[0][1] = C; x",
    "x := A; x[0][1] += C; x",
    "x := A; x[1][0] = C; x",
    "x := A; every x[0][0:2] = C; x",
    "x := A; x[\"a\"][0][1] = C; x",
    "x := [A, B]; x[0][0] = C; x",
    "x := {1: A}; x[1][0] = C; x",
    // two struct definitions with the same name and a different number of fields alive at once: an accessor
    // of one applied to an instance of the other is a catchable error
    "struct Pt(px, py); mk := \\ -> (struct Pt(px); Pt(A)); q := mk(); [try py(q) catch e -> 0, try q[py] catch e -> 0, try (q[py] = B) catch e -> 0, try q{py = B} catch e -> 0, try (q[py] += 1) catch e -> 0]",
    "struct Pt(px); mk := \\ -> (struct Pt(px, py, pz); Pt(A, B, C)); q := mk(); [try px(q) catch e -> 0, try q[px] catch e -> 0]",
    // op-assignment whose TARGET is a struct pattern (`Pt(a, b) f= v` packs the variables into an instance, calls
    // f, unpacks the result): with the right number of sub-patterns, too few and too many
    "struct Pt(px, py); a := A; b := B; f := \\p, k -> Pt(py(p), px(p)); Pt(a, b) f= C; [a, b]",
    "struct Pt(px, py); a := A; g := \\p, k -> py(p); try (Pt(a) g= B) catch e -> 0; a",
    "struct Pt(px, py); a := A; g := \\p, k -> [px(p), p[py], p]; try (Pt(a) g= B) catch e -> 0; a",
    "struct Pt(px); a := A; b := B; g := \\p, k -> px(p); try (Pt(a, b) g= C) catch e -> 0; [a, b]",
    "struct Pt(px, py); a := A; b := B; Pt(a, b) = Pt(B, A); [a, b]",
    "struct Pt(px, py); switch (A) case Pt(a) -> a case Pt(a, b) -> [a, b] case Pt(a, b, c) -> c case _ -> B",
    // several try / catch statements in ONE scope with the same catch name, and a catch name that shadows a
    // variable of the scope: each catch clause binds in its own fresh scope
    "!ok r1 := try A[B] catch e -> 1; r2 := try A[C] catch e -> 2; r3 := try (A[B][C]) catch e -> 3; [r1, r2, r3]",
    "!ok e := 5; r := try (A[B][C]) catch e -> 7; [r, e]",
    "!ok f := \\ -> (try A[B] catch e -> 1); g := \\ -> (e := 0; try A[C] catch e -> 2); [f(), g(), f()]",
    // the folding builtins in their infix (single-operator chain), partial-application and op-assign forms:
    // their internal early exit must not leave the builtin
    "try (A any B) catch e -> 0",
    "try (A all B) catch e -> 0",
    "try (any(B)(A)) catch e -> 0",
    "x := A; try (x any= B) catch e -> 0; x",
    "(for (q <- [1, 2, 3]) yield (try (A any B) catch e -> 0))",
    "try (A find B) catch e -> 0",
    "try (A take B) catch e -> 0",
    "try (A drop B) catch e -> 0",
];

/// the statement sweep's programs, in a fixed order (index = case id)
fn build_stmts(tier: &str, seed: u64) -> Vec<(usize, String)> {
    let spool: Vec<usize> = if tier == "thorough" { (0..POOL.len()).collect() } else { QUICK_POOL.to_vec() };
    let mut srng = Rng::new(seed ^ 0x57A7);
    let mut out = vec![];
    for (ti, t) in STMT_TEMPLATES.iter().enumerate() {
        // "!ok " marks a template in which every error is caught: its evaluation must end with a value
        let t = &t.trim_start_matches("!ok ");
        let three = t.contains('C');
        let two = three || t.split(|ch: char| !ch.is_alphanumeric() && ch != '_').any(|w| w == "B");
        for &a in &spool {
            let bs: Vec<usize> = if two { spool.clone() } else { vec![0] };
            for &b in &bs {
                let cs: Vec<usize> = if three {
                    (0..(if tier == "thorough" { 8 } else { 3 })).map(|_| *srng.pick(&spool)).collect()
                } else {
                    vec![0]
                };
                for c in cs {
                    // word-boundary replacement of the placeholders A, B, C
                    let mut src = String::new();
                    for tok in t.split_inclusive(|ch: char| !ch.is_alphanumeric() && ch != '_') {
                        let (word, rest) = match tok.char_indices().last() {
                            Some((i, ch)) if !ch.is_alphanumeric() && ch != '_' => (&tok[..i], &tok[i..]),
                            _ => (tok, ""),
                        };
                        src.push_str(match word {
                            "A" => POOL[a].src,
                            "B" => POOL[b].src,
                            "C" => POOL[c].src,
                            w => w,
                        });
                        src.push_str(rest);
                    }
                    out.push((ti, src));
                }
            }
        }
    }
    out
}

fn watchdog_ms() -> u64 {
    std::env::var("C14_WATCHDOG_MS").ok().and_then(|v| v.parse().ok()).unwrap_or(6000)
}
fn only_case() -> Option<u64> {
    std::env::var("C14_ONLY").ok().and_then(|v| v.parse().ok())
}

/// per-case watchdog of a child process: prints `H <id>` and exits when a case runs longer than 6 s
fn start_watchdog() -> (Arc<AtomicU64>, Arc<AtomicU64>) {
    let started = Arc::new(AtomicU64::new(0));
    let current = Arc::new(AtomicU64::new(u64::MAX));
    let (s2, c2) = (started.clone(), current.clone());
    std::thread::spawn(move || loop {
        std::thread::sleep(std::time::Duration::from_millis(200));
        let cur = c2.load(Ordering::SeqCst);
        if cur != u64::MAX {
            let t0 = s2.load(Ordering::SeqCst);
            let now = std::time::SystemTime::now().duration_since(std::time::UNIX_EPOCH).unwrap().as_millis() as u64;
            if now > t0 + watchdog_ms() {
                println!("H\t{}", cur);
                let _ = std::io::stdout().flush();
                std::process::exit(3);
            }
        }
    });
    (started, current)
}

/// all source programs of the in-source sections, in a fixed order (index = case id):
/// (section, template index or 0, builtin name or "", source, fuel)
fn build_programs(tier: &str, seed: u64, cases: &[Case]) -> Vec<(&'static str, usize, String, String, u64)> {
    let mut out = vec![];
    // 2. try/catch containment via source
    for c in cases.iter().filter(|c| c.args.len() <= 2 && c.name.chars().all(|ch| ch.is_alphanumeric() || ch == '_')).step_by(7) {
        let call = case_text(c);
        let src = format!("canary := 42; r := try (({}); \"V\") catch e -> \"C\"; [r, canary]", call);
        out.push(("contain", 0, c.name.clone(), src, 2_000_000));
    }
    // 2b. statement sweep
    for (ti, src) in build_stmts(tier, seed) {
        out.push(("stmt", ti, String::new(), src, 300_000));
    }
    // 3. fault-injected generated programs
    let nprog = if tier == "thorough" { 6000 } else { 500 };
    let mut rng = Rng::new(seed ^ 0xC14);
    for _ in 0..nprog {
        let mut g = Gen::new(rng.fork(), 3);
        let n = 3 + g.rng.below(4) as usize;
        let at = g.rng.below(n as u64) as usize;
        let caught = g.rng.chance(1, 2);
        let prog = g.gen_program(n, Some(at), caught);
        out.push(("fault", 0, String::new(), prog.src(), 300_000));
    }
    out
}

fn child_stmt(args: &Args) {
    let shard: u64 = args.extra[1].parse().unwrap();
    let nshards: u64 = args.extra[2].parse().unwrap();
    let from: u64 = args.extra[3].parse().unwrap();
    unsafe {
        let lim = Rlimit { cur: 6 << 30, max: 6 << 30 };
        setrlimit(9, &lim);
    }
    install_quiet_panic_hook();
    let names = builtin_names(&Interp::new());
    let cases = build_cases(&args.tier, args.seed, &names);
    let progs = build_programs(&args.tier, args.seed, &cases);
    let (started, current) = start_watchdog();
    let out = std::io::stdout();
    for (k, (_, _, _, src, fuel)) in progs.iter().enumerate() {
        let id = k as u64;
        if id % nshards != shard || id < from {
            continue;
        }
        if let Some(o) = only_case() {
            if id != o {
                continue;
            }
        }
        {
            let mut o = out.lock();
            let _ = writeln!(o, "S\t{}", id);
            let _ = o.flush();
        }
        let now = std::time::SystemTime::now().duration_since(std::time::UNIX_EPOCH).unwrap().as_millis() as u64;
        started.store(now, Ordering::SeqCst);
        current.store(id, Ordering::SeqCst);
        let it4 = Interp::new();
        noulith::verif_set_fuel(*fuel);
        let res = it4.eval(src);
        noulith::verif_set_fuel(u64::MAX);
        current.store(u64::MAX, Ordering::SeqCst);
        let class = match &res {
            Outcome::Panic(m) => format!("panic: {}", m.replace('\t', " ").replace('\n', " ")),
            // a break / continue / return that leaves evaluate() (try/catch does not receive those)
            Outcome::Escape(m) => format!("escape: {}", m.replace('\t', " ").replace('\n', " ")),
            o => o.class(),
        };
        let mut o = out.lock();
        let _ = writeln!(o, "R\t{}\t{}", id, class);
    }
    println!("D");
}

/// run one kind of child over 14 shards; a child that hangs or dies is restarted past the culprit.
/// Returns per shard (results, usability probes)
fn run_shards(mode: &'static str, tier: &str, seed: u64) -> Vec<(Vec<(u64, String)>, Vec<(u64, String)>)> {
    let nshards = 14u64;
    let exe = std::env::current_exe().unwrap();
    let handles: Vec<_> = (0..nshards)
        .map(|shard| {
            let exe = exe.clone();
            let tier = tier.to_string();
            std::thread::spawn(move || {
                let mut results: Vec<(u64, String)> = vec![];
                let mut usable: Vec<(u64, String)> = vec![];
                let mut from = 0u64;
                let mut restarts = 0;
                let mut confirmed_hangs = 0;
                loop {
                    let out = std::process::Command::new(&exe)
                        .args([mode, &shard.to_string(), &nshards.to_string(), &from.to_string(), "--tier", &tier, "--seed", &seed.to_string()])
                        .output()
                        .expect("spawn child");
                    let text = String::from_utf8_lossy(&out.stdout).to_string();
                    let mut last_start: Option<u64> = None;
                    let mut done = false;
                    for line in text.lines() {
                        let p: Vec<&str> = line.split('\t').collect();
                        match p[0] {
                            "S" => last_start = p[1].parse().ok(),
                            "R" => {
                                results.push((p[1].parse().unwrap(), p[2].to_string()));
                                last_start = None;
                            }
                            "U" => usable.push((p[1].parse().unwrap(), p[2].to_string())),
                            "H" => {
                                // a case that exceeded the per-case limit is run again ALONE with a 30 s limit
                                // before it is believed: on a loaded machine a heavy but terminating case
                                // must not be reported as a hang
                                let hid: u64 = p[1].parse().unwrap();
                                if confirmed_hangs >= 1 {
                                    // a hang of this shard was already confirmed: believe the rest
                                    results.push((hid, "hang".to_string()));
                                    last_start = None;
                                    from = hid + 1;
                                    continue;
                                }
                                let again = std::process::Command::new(&exe)
                                    .args([mode, &shard.to_string(), &nshards.to_string(), &hid.to_string(), "--tier", &tier, "--seed", &seed.to_string()])
                                    .env("C14_WATCHDOG_MS", "30000")
                                    .env("C14_ONLY", hid.to_string())
                                    .output()
                                    .expect("spawn child");
                                let atext = String::from_utf8_lossy(&again.stdout).to_string();
                                let verdict = atext
                                    .lines()
                                    .filter_map(|l| {
                                        let q: Vec<&str> = l.split('\t').collect();
                                        if q[0] == "R" && q.len() >= 3 && q[1].parse::<u64>().ok() == Some(hid) { Some(q[2].to_string()) } else { None }
                                    })
                                    .next();
                                if verdict.is_none() {
                                    confirmed_hangs += 1;
                                }
                                results.push((hid, verdict.unwrap_or_else(|| "hang".to_string())));
                                last_start = None;
                                from = hid + 1;
                            }
                            "D" => done = true,
                            _ => {}
                        }
                    }
                    if done {
                        break;
                    }
                    if let Some(id) = last_start {
                        // the child died inside this case (abort / stack overflow / allocation failure)
                        results.push((id, format!("abort({:?})", out.status.code())));
                        from = id + 1;
                    }
                    restarts += 1;
                    if restarts > 12 {
                        break;
                    }
                }
                (results, usable)
            })
        })
        .collect();
    handles.into_iter().map(|h| h.join().unwrap()).collect()
}

fn main() {
    let args = parse_args();
    if args.extra.first().map(|s| s.as_str()) == Some("--child") {
        child(&args);
        return;
    }
    if args.extra.first().map(|s| s.as_str()) == Some("--stmt-child") {
        child_stmt(&args);
        return;
    }
    install_quiet_panic_hook();
    let mut rep = Report::new("C14", &args);
    rep.rule = "sweep: every global builtin (minus the file/process/network/clock/sleep/stdin list) x every tuple of 0..2 arguments \
                from the pool (35 values quick / 47 thorough: null, ints incl. +-2^63 / 2^64, rational, floats incl. NaN and inf, \
                complex, strings incl. non-ASCII, lists, dicts with and without default, vectors, bytes incl. non-UTF-8, finite \
                stream, closures, builtins, containers with an unhashable value nested inside, finite streams whose production raises part-way, advanced list-backed streams) plus sampled 3-tuples, called through Func::run under catch_unwind in child \
                processes with a 6 s per-case watchdog (a case that exceeds it is re-run alone with a 30 s limit before it is reported as a hang; a shard gives up after 12 restarts) and a 6 GiB address-space limit; numeric-size builtins are skipped when an \
                argument is astronomically large. Then try/catch containment through source programs, the statement sweep (73 statement templates x pool tuples, also in watchdogged child processes) and fault-injected \
                generated programs. non-trivial = a call that raised or returned normally with >= 1 argument; distinct = \
                distinct call text"
        .into();
    let it = Interp::new();
    let names = builtin_names(&it);
    let cases = build_cases(&args.tier, args.seed, &names);
    let by_id: std::collections::HashMap<u64, &Case> = cases.iter().map(|c| (c.id, c)).collect();

    if let Some(path) = &args.replay {
        let text = std::fs::read_to_string(path).expect("replay file");
        for line in text.lines() {
            if let Some(rest) = line.strip_prefix("input: ") {
                println!("rust: {}", eval_fresh(rest).detail());
            }
        }
        return;
    }

    // ------------------------------------------------------------------ 1. the sweep, sharded
    let mut total = 0u64;
    for (results, usable) in run_shards("--child", &args.tier, args.seed) {
        for (id, class) in results {
            total += 1;
            let c = by_id[&id];
            let text = case_text(c);
            rep.case(&text, !c.args.is_empty());
            rep.outcome(if class.starts_with("abort") { "abort" } else { class.as_str() });
            rep.arm(&format!("arity{}", c.args.len()));
            if class == "panic" || class == "hang" || class.starts_with("abort") {
                let key = format!("{}:{}", class.split('(').next().unwrap(), c.name);
                rep.judge(&key, &text, &class, "ok-or-throw", "ok-or-throw");
            }
        }
        for (id, u) in usable {
            if u != "usable" {
                let c = by_id[&id];
                rep.judge(&format!("unusable-after:{}", c.name), &case_text(c), "interpreter unusable after caught error", "usable", "usable");
            }
        }
    }
    rep.notes.push(format!("sweep calls executed: {} over {} builtins ({} excluded by name)", total, names.len(), EXCLUDED.len()));

    // ------------------------------------------------------------------ 2, 2b, 3: source programs, run in
    // watchdogged child processes like the sweep (a hang or an abort inside one is attributed to it):
    // try/catch containment, the statement sweep (the mutation, destructuring and indexing STATEMENTS of
    // the language on every pool value: builtins are only half of "whatever a program does with the pure
    // part of the language") and fault-injected generated programs
    let progs = build_programs(&args.tier, args.seed, &cases);
    let (mut contained, mut nstmt, mut nfault) = (0u64, 0u64, 0u64);
    for (results, _) in run_shards("--stmt-child", &args.tier, args.seed) {
        for (id, class) in results {
            let (section, ti, name, src, _) = &progs[id as usize];
            rep.case(src, true);
            let bad = class.starts_with("panic") || class == "hang" || class.starts_with("abort");
            let kind = if class.starts_with("panic") { "panic" } else if class == "hang" { "hang" } else { "abort" };
            rep.outcome(if bad { kind } else { class.split(' ').next().unwrap_or("") });
            match *section {
                "contain" => {
                    rep.arm("try-catch-containment");
                    contained += 1;
                    if class != "ok [s:56,42]" && class != "ok [s:43,42]" {
                        rep.judge(&format!("containment:{}", name), src, &class, "ok [s:56|s:43,42]", "ok [s:56|s:43,42]");
                    }
                }
                "stmt" => {
                    rep.arm("statement-sweep");
                    nstmt += 1;
                    // no statement template contains break / continue / return: control flow that escapes
                    // evaluation came out of a builtin (it is neither a value nor a catchable error)
                    if STMT_TEMPLATES[*ti].starts_with("!ok ") && !class.starts_with("ok") && !bad && !class.starts_with("escape") {
                        let t = STMT_TEMPLATES[*ti];
                        let key = format!("uncaught:stmt:{}", t.split(';').last().unwrap_or(t).trim().chars().take(24).collect::<String>().replace(' ', "_"));
                        rep.judge(&key, src, &class, "ok (every error is caught)", "ok (every error is caught)");
                    }
                    if class.starts_with("escape") {
                        let t = STMT_TEMPLATES[*ti];
                        let key = format!("escape:stmt:{}", t.split(';').last().unwrap_or(t).trim().chars().take(24).collect::<String>().replace(' ', "_"));
                        rep.judge(&key, src, &class, "ok-or-throw", "ok-or-throw");
                    }
                    if bad {
                        let t = STMT_TEMPLATES[*ti];
                        let key = format!("{}:stmt:{}", kind, t.split(';').last().unwrap_or(t).trim().chars().take(24).collect::<String>().replace(' ', "_"));
                        rep.judge(&key, src, &class, "ok-or-throw", "ok-or-throw");
                    }
                }
                _ => {
                    rep.arm("fault-injected-program");
                    nfault += 1;
                    if bad {
                        rep.judge(&format!("{}:generated-program", kind), src, &class, "ok-or-throw", "ok-or-throw");
                    }
                }
            }
        }
    }
    rep.notes.push(format!("try/catch containment programs: {}", contained));
    rep.notes.push(format!("statement-sweep programs: {}", nstmt));
    rep.notes.push(format!("fault-injected generated programs: {}", nfault));
    rep.write(&args.out);
}
