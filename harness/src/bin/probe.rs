//! evaluate each line of stdin (or each argument) in a fresh interpreter and print the outcome
use vharness::*;
fn main() {
    install_quiet_panic_hook();
    let args: Vec<String> = std::env::args().skip(1).collect();
    let lines: Vec<String> = if args.is_empty() {
        use std::io::BufRead;
        std::io::stdin().lock().lines().map(|l| l.unwrap()).collect()
    } else {
        args
    };
    for l in lines {
        if l.trim().is_empty() {
            continue;
        }
        let it = Interp::new();
        let o = it.eval(&l);
        let out = it.take_output();
        println!("{}  =>  {}{}", l, o.detail(), if out.is_empty() { String::new() } else { format!("  [out: {:?}]", out) });
    }
}
