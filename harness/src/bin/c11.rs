//! C11 correspondence: lazy streams of the real interpreter vs the Impl model (Impl/Stream.lean)
//! vs the Spec (Spec/StreamSpec.lean).
//!
//! One *case* = one stream expression bound to a variable `s` in a fresh interpreter, followed by a
//! random order of observations of that same variable (`len`, `list`, index, slice, `reverse`,
//! `last`, `in`, truthiness, unpacking, iteration, take/drop-while).  Every observation is sent to
//! the Lean driver as an independent request evaluated from the stream's *initial* state, so an
//! observation that advanced or otherwise changed the variable shows up in the later ones.
//!
//! The real interpreter runs in a child process (`--worker`) that the parent kills when one
//! evaluation makes no progress for several seconds: a non-terminating evaluation is an outcome
//! (`hang`), not a stuck check.
use num::bigint::BigInt;
use num::{Signed, ToPrimitive, Zero};
use std::collections::HashMap;
use std::io::{BufRead, BufReader, Write};
use std::process::{Command, Stdio};
use std::sync::mpsc;
use std::time::Duration;
use vharness::*;

// ---------------------------------------------------------------------------------------------
// values
#[derive(Clone, Debug, PartialEq)]
enum V {
    I(BigInt),
    L(Vec<V>),
}
fn vi(n: i64) -> V {
    V::I(BigInt::from(n))
}
fn int_src(n: &BigInt) -> String {
    if n.is_negative() {
        format!("(0-{})", -n)
    } else {
        format!("{}", n)
    }
}
impl V {
    fn src(&self) -> String {
        match self {
            V::I(n) => int_src(n),
            V::L(xs) => format!("[{}]", xs.iter().map(|x| x.src()).collect::<Vec<_>>().join(", ")),
        }
    }
    fn tok(&self) -> String {
        match self {
            V::I(n) => format!("{}", n),
            V::L(xs) => format!("[{}]", xs.iter().map(|x| x.tok()).collect::<Vec<_>>().join(",")),
        }
    }
}
fn list_src(xs: &[V]) -> String {
    V::L(xs.to_vec()).src()
}
fn list_tok(xs: &[V]) -> String {
    V::L(xs.to_vec()).tok()
}

// ---------------------------------------------------------------------------------------------
// stream expressions
#[derive(Clone, Debug)]
enum SE {
    Til(BigInt, BigInt, Option<BigInt>, u8),
    To(BigInt, BigInt, Option<BigInt>, u8),
    Iota(BigInt),
    Perms(Vec<V>, u8),
    Combs(Vec<V>, i64),
    Subseqs(Vec<V>),
    Cpow(Vec<V>, i64),
    Wrap(Vec<V>, u8),
    Repeat(V),
    Cycle(Vec<V>),
    Iterate(String, V),
    Map(String, Box<SE>),
    Filter(String, Box<SE>),
    Zip(String, Vec<SE>),
    DropS(usize, Box<SE>, u8),
    RevS(Box<SE>),
    DropWhile(String, Box<SE>),
}

fn fn_src(f: &str) -> String {
    let (name, c) = split_arg(f);
    match name {
        "add" => format!("\\x -> x + {}", int_src(&c)),
        "mul" => format!("\\x -> x * {}", int_src(&c)),
        "sq" => "\\x -> x * x".into(),
        "neg" => "\\x -> 0 - x".into(),
        "pair" => "\\x -> [x, x]".into(),
        "lenf" => "\\x -> len(x)".into(),
        "const" => format!("\\x -> {}", int_src(&c)),
        "stopge" => format!("\\x -> if (x < {}) x + 1 else break", int_src(&c)),
        "failge" => format!("\\x -> if (x < {}) x + 1 else throw \"boom\"", int_src(&c)),
        "mfail" => format!("\\x -> if (x == {}) throw \"boom\" else x + 1", int_src(&c)),
        _ => "\\x -> x".into(),
    }
}
fn pred_src(p: &str) -> String {
    let (name, c) = split_arg(p);
    match name {
        "lt" => format!("\\x -> x < {}", int_src(&c)),
        "gt" => format!("\\x -> x > {}", int_src(&c)),
        "ne" => format!("\\x -> x != {}", int_src(&c)),
        "even" => "\\x -> x % 2 == 0".into(),
        "tt" => "\\x -> 1".into(),
        "ff" => "\\x -> 0".into(),
        "lenlt" => format!("\\x -> len(x) < {}", int_src(&c)),
        "evenlen" => "\\x -> len(x) % 2 == 0".into(),
        "pfail" => format!("\\x -> if (x == {}) throw \"boom\" else x % 2 == 0", int_src(&c)),
        _ => "\\x -> 0".into(),
    }
}
fn fn2_src(f: &str, n: usize) -> Option<String> {
    if let Some(c) = f.strip_prefix("zfail:") {
        let c: BigInt = c.parse().unwrap_or_else(|_| BigInt::zero());
        return Some(format!("(\\a, b -> if (a == {}) throw \"boom\" else a + b)", int_src(&c)));
    }
    match (f, n) {
        ("none", _) => None,
        ("plus", 2) => Some("+".into()),
        ("plus", _) => Some("\\a, b, c -> a + b + c".into()),
        ("lin", 2) => Some("\\a, b -> a * 10 + b".into()),
        ("lin", _) => Some("\\a, b, c -> (a * 10 + b) * 10 + c".into()),
        ("firstf", 2) => Some("\\a, b -> a".into()),
        ("firstf", _) => Some("\\a, b, c -> a".into()),
        _ => None,
    }
}
fn split_arg(s: &str) -> (&str, BigInt) {
    match s.split_once(':') {
        Some((a, b)) => (a, b.parse().unwrap_or_else(|_| BigInt::zero())),
        None => (s, BigInt::zero()),
    }
}

impl SE {
    fn src(&self) -> String {
        match self {
            SE::Til(a, b, None, _) => format!("({} til {})", int_src(a), int_src(b)),
            SE::Til(a, b, Some(c), 0) => format!("({} til {} by {})", int_src(a), int_src(b), int_src(c)),
            SE::Til(a, b, Some(c), _) => format!("til({}, {}, {})", int_src(a), int_src(b), int_src(c)),
            SE::To(a, b, None, _) => format!("({} to {})", int_src(a), int_src(b)),
            SE::To(a, b, Some(c), 0) => format!("({} to {} by {})", int_src(a), int_src(b), int_src(c)),
            SE::To(a, b, Some(c), _) => format!("to({}, {}, {})", int_src(a), int_src(b), int_src(c)),
            SE::Iota(a) => format!("iota({})", int_src(a)),
            SE::Perms(l, v) => format!("permutations({})", base_src(l, *v)),
            SE::Combs(l, k) => format!("combinations({}, {})", list_src(l), int_src(&BigInt::from(*k))),
            SE::Subseqs(l) => format!("subsequences({})", list_src(l)),
            SE::Cpow(l, k) => format!("({} ^^ {})", list_src(l), int_src(&BigInt::from(*k))),
            SE::Wrap(l, v) => match v {
                1 if l.iter().all(|x| matches!(x, V::I(_))) && !l.is_empty() => {
                    format!("stream(V({}))", l.iter().map(|x| x.src()).collect::<Vec<_>>().join(", "))
                }
                2 => format!("({} to stream)", list_src(l)),
                3 => format!("stream(stream({}))", list_src(l)),
                _ => format!("stream({})", list_src(l)),
            },
            SE::Repeat(v) => format!("repeat({})", v.src()),
            SE::Cycle(l) => format!("cycle({})", list_src(l)),
            SE::Iterate(f, v) => format!("iterate({}, {})", v.src(), fn_src(f)),
            SE::Map(f, e) => format!("lazy_map({}, {})", e.src(), fn_src(f)),
            SE::Filter(p, e) => format!("lazy_filter({}, {})", e.src(), pred_src(p)),
            SE::Zip(f, es) => {
                let args = es.iter().map(|e| e.src()).collect::<Vec<_>>().join(", ");
                match fn2_src(f, es.len()) {
                    Some(fs) => format!("lazy_zip({}, {})", fs, args),
                    None => format!("lazy_zip({})", args),
                }
            }
            SE::DropS(n, e, 0) => format!("({})[{}:]", e.src(), n),
            SE::DropS(n, e, _) => format!("({} drop {})", e.src(), n),
            SE::RevS(e) => format!("reverse({})", e.src()),
            SE::DropWhile(p, e) => format!("({} drop ({}))", e.src(), pred_src(p)),
        }
    }
    fn tok(&self) -> String {
        match self {
            SE::Til(a, b, None, _) => format!("til {} {}", a, b),
            SE::Til(a, b, Some(c), _) => format!("tilby {} {} {}", a, b, c),
            SE::To(a, b, None, _) => format!("to {} {}", a, b),
            SE::To(a, b, Some(c), _) => format!("toby {} {} {}", a, b, c),
            SE::Iota(a) => format!("iota {}", a),
            SE::Perms(l, _) => format!("perms {}", list_tok(l)),
            SE::Combs(l, k) => format!("combs {} {}", list_tok(l), k),
            SE::Subseqs(l) => format!("subseqs {}", list_tok(l)),
            SE::Cpow(l, k) => format!("cpow {} {}", list_tok(l), k),
            SE::Wrap(l, _) => format!("wrap {}", list_tok(l)),
            SE::Repeat(v) => format!("repeat {}", v.tok()),
            SE::Cycle(l) => format!("cycle {}", list_tok(l)),
            SE::Iterate(f, v) => format!("iterate {} {}", f, v.tok()),
            SE::Map(f, e) => format!("map {} {}", f, e.tok()),
            SE::Filter(p, e) => format!("filter {} {}", p, e.tok()),
            SE::Zip(f, es) => format!(
                "zip {} {} {}",
                f,
                es.len(),
                es.iter().map(|e| e.tok()).collect::<Vec<_>>().join(" ")
            ),
            SE::DropS(n, e, _) => format!("dropS {} {}", n, e.tok()),
            SE::RevS(e) => format!("revS {}", e.tok()),
            SE::DropWhile(p, e) => format!("dropWhile {} {}", p, e.tok()),
        }
    }
    /// class of the outermost constructor, used in keys and arm names
    fn class(&self) -> String {
        match self {
            SE::Til(_, _, c, _) | SE::To(_, _, c, _) => {
                let s = match c {
                    None => "+",
                    Some(c) if c.is_positive() => "+",
                    Some(c) if c.is_negative() => "-",
                    _ => "0",
                };
                format!("range{}", s)
            }
            SE::Iota(_) => "iota".into(),
            SE::Perms(..) => "perms".into(),
            SE::Combs(..) => "combs".into(),
            SE::Subseqs(..) => "subseqs".into(),
            SE::Cpow(..) => "cpow".into(),
            SE::Wrap(..) => "wrap".into(),
            SE::Repeat(..) => "repeat".into(),
            SE::Cycle(..) => "cycle".into(),
            SE::Iterate(..) => "iterate".into(),
            SE::Map(..) => "map".into(),
            SE::Filter(..) => "filter".into(),
            SE::Zip(..) => "zip".into(),
            SE::DropS(_, e, _) => {
                let c = e.class();
                if c.ends_with("@drop") {
                    c
                } else {
                    format!("{}@drop", c)
                }
            }
            SE::RevS(e) => format!("rev:{}", e.class()),
            SE::DropWhile(_, e) => format!("dropwhile:{}", e.class()),
        }
    }
    fn info(&self) -> Info {
        let mut i = self.info0();
        if self.has_partial() {
            i.partial = true;
            if !i.finite || i.huge {
                i.len = 5;
            }
            i.finite = true;
            i.huge = false;
            i.exact = false;
            i.rev_stream = false;
        }
        i
    }
    fn has_partial(&self) -> bool {
        let pn = |f: &str| ["stopge", "failge", "mfail", "pfail", "zfail"].iter().any(|p| f.starts_with(p));
        match self {
            SE::Iterate(f, _) => pn(f),
            SE::Map(f, e) | SE::Filter(f, e) | SE::DropWhile(f, e) => pn(f) || e.has_partial(),
            SE::Zip(f, es) => pn(f) || es.iter().any(|e| e.has_partial()),
            SE::DropS(_, e, _) | SE::RevS(e) => e.has_partial(),
            _ => false,
        }
    }
    fn info0(&self) -> Info {
        match self {
            SE::Til(a, b, c, _) => range_info(a, b, c.as_ref().unwrap_or(&BigInt::from(1))),
            SE::To(a, b, c, _) => {
                let c1 = c.clone().unwrap_or_else(|| BigInt::from(1));
                let e = if c1.is_negative() { b - 1 } else { b + 1 };
                range_info(a, &e, &c1)
            }
            SE::Iota(_) => Info::inf(true, true),
            SE::Perms(l, _) => Info::fin((1..=l.len()).product::<usize>(), false, true),
            SE::Combs(l, k) => {
                if *k < 0 {
                    Info::bad()
                } else {
                    Info::fin(binom(l.len(), *k as usize), false, true)
                }
            }
            SE::Subseqs(l) => Info::fin(1usize << l.len(), false, true),
            SE::Cpow(l, k) => {
                if *k < 0 {
                    Info::bad()
                } else if l.is_empty() {
                    Info::fin(if *k == 0 { 1 } else { 0 }, false, true)
                } else {
                    Info::fin(l.len().pow(*k as u32), false, true)
                }
            }
            SE::Wrap(l, _) => Info::fin(l.len(), l.iter().all(|x| matches!(x, V::I(_))), true),
            SE::Repeat(v) => {
                let mut i = Info::inf(matches!(v, V::I(_)), true);
                i.rev_stream = true;
                i
            }
            SE::Cycle(l) => {
                if l.is_empty() {
                    Info::bad()
                } else {
                    let mut i = Info::inf(l.iter().all(|x| matches!(x, V::I(_))), true);
                    i.rev_stream = true;
                    i
                }
            }
            SE::Iterate(f, _) => Info::inf(!f.starts_with("pair"), true),
            SE::Map(f, e) => {
                let mut i = e.info();
                i.ints = !f.starts_with("pair");
                i.len_override = false;
                i.rev_stream = false;
                i
            }
            SE::Filter(_, e) => {
                let mut i = e.info();
                i.exact = false;
                i.len_override = false;
                i.rev_stream = false;
                i
            }
            SE::Zip(f, es) => {
                let infos: Vec<Info> = es.iter().map(|e| e.info()).collect();
                let finite = infos.iter().any(|i| i.finite);
                let len = infos.iter().filter(|i| i.finite).map(|i| i.len).min().unwrap_or(0);
                Info {
                    finite,
                    len,
                    ints: match f.as_str() {
                        "none" => false,
                        "firstf" => infos[0].ints,
                        _ => true,
                    },
                    exact: infos.iter().all(|i| i.exact),
                    len_override: false,
                    huge: infos.iter().filter(|i| i.finite).all(|i| i.huge) && finite,
                    bad: infos.iter().any(|i| i.bad),
                    rev_stream: false,
                    partial: false,
                }
            }
            SE::DropS(n, e, _) => {
                let mut i = e.info();
                i.len = i.len.saturating_sub(*n);
                i
            }
            SE::RevS(e) => e.info(),
            SE::DropWhile(_, e) => {
                let mut i = e.info();
                i.exact = false;
                i
            }
        }
    }
}
fn base_src(l: &[V], variant: u8) -> String {
    match variant {
        1 => format!("stream({})", list_src(l)),
        2 if !l.is_empty() && l.iter().all(|x| matches!(x, V::I(_))) => {
            format!("V({})", l.iter().map(|x| x.src()).collect::<Vec<_>>().join(", "))
        }
        _ => list_src(l),
    }
}
fn binom(n: usize, k: usize) -> usize {
    if k > n {
        return 0;
    }
    let mut r = 1usize;
    for i in 0..k {
        r = r * (n - i) / (i + 1);
    }
    r
}

#[derive(Clone, Debug)]
struct Info {
    finite: bool,
    /// number of elements (exact when `exact`), used to choose index and slice bounds
    len: usize,
    ints: bool,
    exact: bool,
    /// the Rust type overrides `len` (so `len`, truthiness and showing a stream value never iterate)
    len_override: bool,
    /// finite but too long to enumerate
    huge: bool,
    /// the constructor itself is expected to raise
    bad: bool,
    /// `reversed` is overridden and yields a stream (repeat, cycle)
    rev_stream: bool,
    /// driven by a function that stops or raises at some element: the item stream ends or reaches
    /// an error after a few elements, so every observation terminates
    partial: bool,
}
impl Info {
    fn fin(len: usize, ints: bool, len_override: bool) -> Info {
        Info { finite: true, len, ints, exact: true, len_override, huge: false, bad: false, rev_stream: false, partial: false }
    }
    fn inf(ints: bool, len_override: bool) -> Info {
        Info { finite: false, len: 0, ints, exact: true, len_override, huge: false, bad: false, rev_stream: false, partial: false }
    }
    fn bad() -> Info {
        Info { finite: true, len: 0, ints: true, exact: true, len_override: true, huge: false, bad: true, rev_stream: false, partial: false }
    }
}
fn range_info(a: &BigInt, e: &BigInt, c: &BigInt) -> Info {
    if c.is_zero() {
        return if a < e { Info::inf(true, true) } else { Info::fin(0, true, true) };
    }
    let cnt: BigInt = if c.is_positive() {
        if a < e { (e - a + c - 1) / c } else { BigInt::zero() }
    } else if a > e {
        (a - e - c - 1) / (-c)
    } else {
        BigInt::zero()
    };
    match cnt.to_usize() {
        Some(n) if n <= 200 => Info::fin(n, true, true),
        _ => Info { finite: true, len: 1000, ints: true, exact: false, len_override: true, huge: true, bad: false, rev_stream: false, partial: false },
    }
}

// ---------------------------------------------------------------------------------------------
// observations
#[derive(Clone, Debug)]
struct Obs {
    /// source text with `s` as the stream variable
    src: String,
    /// driver tokens before the `@`
    tok: String,
    kind: &'static str,
    /// when the observation is made on a stream *derived* from the variable (`s drop k`, `s[k:]`,
    /// `tail(s)`, …): the derived stream expression (source already substituted into `src`)
    derived: Option<SE>,
}
/// replace the free variable `s` of an observation by `with`
fn subst_s(src: &str, with: &str) -> String {
    let cs: Vec<char> = src.chars().collect();
    let mut out = String::new();
    let is_id = |c: char| c.is_alphanumeric() || c == '_';
    for (i, c) in cs.iter().enumerate() {
        let prev_id = i > 0 && is_id(cs[i - 1]);
        let next_id = i + 1 < cs.len() && is_id(cs[i + 1]);
        if *c == 's' && !prev_id && !next_id {
            out.push_str(with);
        } else {
            out.push(*c);
        }
    }
    out
}
fn idx_src(i: i64) -> String {
    if i < 0 {
        format!("(0-{})", -(i as i128))
    } else {
        format!("{}", i)
    }
}
fn gen_obs(rng: &mut Rng, info: &Info, elems: &[V], uniq: usize) -> Obs {
    let l = info.len as i64;
    let bound = |rng: &mut Rng| rng.range(-l - 2, l + 2);
    let nonneg = |rng: &mut Rng| rng.range(0, l + 2);
    let finite_ok = info.finite && !info.huge;
    let can_len = info.len_override || finite_ok;
    loop {
        let pick = rng.below(20);
        match pick {
            0 if can_len => return Obs { src: "len(s)".into(), tok: "len".into(), kind: "len", derived: None },
            1 if finite_ok => {
                let src = match rng.below(3) {
                    0 => "list(s)",
                    1 => "[...s]",
                    _ => "for (x <- s) yield x",
                };
                return Obs { src: src.into(), tok: "list".into(), kind: "list", derived: None };
            }
            2 if finite_ok => {
                return Obs { src: "for (i, x <<- s) yield [i, x]".into(), tok: "pairs".into(), kind: "list", derived: None }
            }
            3 if finite_ok || info.rev_stream => {
                // reverse of repeat / cycle is a stream; of iota / iterate it does not terminate
                return Obs { src: "reverse(s)".into(), tok: "rev".into(), kind: "reverse", derived: None };
            }
            4 if finite_ok => return Obs { src: "last(s)".into(), tok: "last".into(), kind: "last", derived: None },
            5 => return Obs { src: "first(s)".into(), tok: "first".into(), kind: "first", derived: None },
            6 if can_len => {
                return Obs { src: "if (s) 1 else 0".into(), tok: "truthy".into(), kind: "truthy", derived: None }
            }
            7 | 8 | 9 => {
                let i = if finite_ok { bound(rng) } else { nonneg(rng) };
                if rng.chance(1, 12) {
                    let bad = *rng.pick(&["1.5", "\"a\"", "2^64", "1.0", "null", "(0-2^63-1)"]);
                    return Obs { src: format!("s[{}]", bad), tok: "idx bad".into(), kind: "index-bad", derived: None };
                }
                let src = match (i, rng.below(6)) {
                    (1, 0) => "second(s)".to_string(),
                    (2, 0) => "third(s)".to_string(),
                    _ => format!("s[{}]", idx_src(i)),
                };
                return Obs { src, tok: format!("idx {}", i), kind: if i < 0 { "index-neg" } else { "index" }, derived: None };
            }
            10 | 11 | 12 | 13 => {
                let lo = if rng.chance(1, 5) { None } else { Some(if finite_ok { bound(rng) } else { nonneg(rng) }) };
                let hi = if rng.chance(1, 5) { None } else { Some(if finite_ok { bound(rng) } else { nonneg(rng) }) };
                if hi.is_none() && (!(info.len_override || finite_ok) || info.huge) {
                    continue; // the result would be a stream whose len() / force() iterates forever
                }
                if rng.chance(1, 15) {
                    let bad = *rng.pick(&["1.5", "\"a\"", "2^64", "1.0"]);
                    let (src, tok) = if rng.chance(1, 2) {
                        (format!("s[{}:{}]", bad, hi.map(idx_src).unwrap_or_default()),
                         format!("slice bad {}", hi.map(|x| x.to_string()).unwrap_or("_".into())))
                    } else {
                        (format!("s[{}:{}]", lo.map(idx_src).unwrap_or_default(), bad),
                         format!("slice {} bad", lo.map(|x| x.to_string()).unwrap_or("_".into())))
                    };
                    return Obs { src, tok, kind: "slice-bad", derived: None };
                }
                let tok = format!(
                    "slice {} {}",
                    lo.map(|x| x.to_string()).unwrap_or("_".into()),
                    hi.map(|x| x.to_string()).unwrap_or("_".into())
                );
                let src = match (lo, hi, rng.below(4)) {
                    (None, Some(h), 0) => format!("s take {}", idx_src(h)),
                    (Some(l), None, 0) => format!("s drop {}", idx_src(l)),
                    (Some(1), None, 1) => "tail(s)".to_string(),
                    (None, Some(-1), 1) => "butlast(s)".to_string(),
                    _ => format!("s[{}:{}]", lo.map(idx_src).unwrap_or_default(), hi.map(idx_src).unwrap_or_default()),
                };
                let neg = lo.map_or(false, |x| x < 0) || hi.map_or(false, |x| x < 0);
                let kind = if hi.is_none() && !lo.map_or(false, |x| x < 0) {
                    "slice-tail"
                } else if neg {
                    "slice-neg"
                } else {
                    "slice"
                };
                return Obs { src, tok, kind, derived: None };
            }
            14 | 15 => {
                // membership: an element that occurs, or (finite streams only) one that does not
                let present = !elems.is_empty() && (rng.chance(2, 3) || !finite_ok);
                let x = if present {
                    rng.pick(elems).clone()
                } else if finite_ok {
                    if info.ints { vi(rng.range(-9, 40)) } else { V::L(vec![vi(rng.range(0, 5))]) }
                } else {
                    continue;
                };
                return Obs { src: format!("({}) in s", x.src()), tok: format!("in {}", x.tok()), kind: "in", derived: None };
            }
            16 if can_len && !info.huge => {
                let k = if info.finite { (l + rng.range(-1, 1)).max(2) } else { 2 } as usize;
                if k > 8 && !rng.chance(1, 4) {
                    continue;
                }
                let k = k.min(24);
                let names: Vec<String> = (0..k).map(|j| format!("u{}_{}", uniq, j)).collect();
                return Obs {
                    src: format!("{} := s; [{}]", names.join(", "), names.join(", ")),
                    tok: format!("unpack {}", k),
                    kind: "unpack",
                    derived: None,
                };
            }
            17 if finite_ok && info.exact => {
                let tot = info.len;
                if tot > 24 {
                    continue;
                }
                let before = rng.below(tot as u64 + 1) as usize;
                let after = rng.below((tot - before) as u64 + 1) as usize;
                if before + after == 0 {
                    continue;
                }
                let mut names: Vec<String> = (0..before).map(|j| format!("p{}_{}", uniq, j)).collect();
                let mid = format!("m{}", uniq);
                let mut all = names.clone();
                all.push(format!("...{}", mid));
                names.push(mid);
                for j in 0..after {
                    names.push(format!("q{}_{}", uniq, j));
                    all.push(format!("q{}_{}", uniq, j));
                }
                return Obs {
                    src: format!("{} := s; [{}]", all.join(", "), names.join(", ")),
                    tok: format!("unpackSplat {} {}", before, after),
                    kind: "unpack-splat",
                    derived: None,
                };
            }
            19 if can_len => {
                return Obs { src: "only(s)".into(), tok: "only".into(), kind: "only", derived: None };
            }
            18 => {
                let p = gen_pred(rng, info, finite_ok);
                if let Some(p) = p {
                    return Obs { src: format!("s take ({})", pred_src(&p)), tok: format!("takeWhile {}", p), kind: "take-while", derived: None };
                }
            }
            _ => {}
        }
    }
}
/// a predicate that is safe to run to the end of the stream (on an infinite stream: one that
/// certainly turns false is not known here, so only `ff`)
fn gen_pred(rng: &mut Rng, info: &Info, finite_ok: bool) -> Option<String> {
    if !finite_ok {
        return Some("ff".into());
    }
    Some(if info.ints {
        match rng.below(6) {
            0 => format!("lt:{}", rng.range(-3, 12)),
            1 => format!("gt:{}", rng.range(-3, 12)),
            2 => format!("ne:{}", rng.range(-3, 12)),
            3 => "even".into(),
            4 => "tt".into(),
            _ => "ff".into(),
        }
    } else {
        match rng.below(4) {
            0 => format!("lenlt:{}", rng.range(0, 4)),
            1 => "evenlen".into(),
            2 => "tt".into(),
            _ => "ff".into(),
        }
    })
}

// ---------------------------------------------------------------------------------------------
// generators of stream expressions
fn edge_ints() -> Vec<BigInt> {
    let two = BigInt::from(2);
    let mut v = vec![];
    for p in [62u32, 63, 64] {
        let b = num::pow(two.clone(), p as usize);
        for d in -2i64..=2 {
            v.push(&b + d);
            v.push(-(&b) + d);
        }
    }
    v
}
fn gen_range(rng: &mut Rng, edges: &[BigInt]) -> SE {
    let form = rng.below(10);
    let big = rng.chance(1, 4);
    let a: BigInt = if big { rng.pick(edges).clone() } else { BigInt::from(rng.range(-8, 8)) };
    let small_step = |rng: &mut Rng| BigInt::from(*rng.pick(&[1i64, 2, 3, 5, 7, -1, -2, -3, -5, -7]));
    let c: BigInt = match rng.below(12) {
        0 => BigInt::zero(),
        1 if big => rng.pick(edges).clone(),
        2 if big => num::pow(BigInt::from(2), 62) * rng.range(-3, 3),
        _ => small_step(rng),
    };
    // end: a few steps away from the start in either direction, sometimes exactly on a multiple
    let steps = rng.range(-3, 9);
    let cc = if c.is_zero() { BigInt::from(1) } else { c.clone() };
    let mut b = &a + &cc * steps + rng.range(-2, 2);
    if rng.chance(1, 6) {
        b = &a + &cc * steps;
    }
    if rng.chance(1, 40) {
        b = &a + num::pow(BigInt::from(2), 70) * (if cc.is_negative() { -1 } else { 1 });
    }
    let variant = rng.below(2) as u8;
    match form {
        0 | 1 => SE::Til(a, b, None, 0),
        2 => SE::To(a, b, None, 0),
        3 | 4 | 5 | 6 => SE::Til(a, b, Some(c), variant),
        _ => SE::To(a, b, Some(c), variant),
    }
}
fn gen_base(rng: &mut Rng, maxlen: u64) -> Vec<V> {
    let n = rng.below(maxlen + 1) as usize;
    let style = rng.below(5);
    (0..n)
        .map(|i| match style {
            0 => vi(i as i64 + 1),
            1 => vi(rng.range(0, 2)),
            2 => V::L((0..rng.below(3)).map(|_| vi(rng.range(0, 3))).collect()),
            3 => vi(rng.range(-20, 20)),
            _ => vi((i as i64) * 10 + 7),
        })
        .collect()
}
fn gen_atom(rng: &mut Rng, edges: &[BigInt], want_finite: Option<bool>) -> SE {
    loop {
        let e = match rng.below(16) {
            0 | 1 | 2 | 3 => gen_range(rng, edges),
            4 | 5 => SE::Perms(gen_base(rng, 5), rng.below(3) as u8),
            6 | 7 => {
                let b = gen_base(rng, 5);
                let k = rng.range(0, b.len() as i64 + 1);
                let k = if rng.chance(1, 25) { -1 } else { k };
                SE::Combs(b, k)
            }
            8 => SE::Subseqs(gen_base(rng, 5)),
            9 | 10 => {
                let b = gen_base(rng, 4);
                let k = rng.range(0, 3);
                let k = if rng.chance(1, 25) { -1 } else { k };
                SE::Cpow(b, k)
            }
            11 | 12 => SE::Wrap(gen_base(rng, 6), rng.below(4) as u8),
            13 => match rng.below(3) {
                0 => SE::Repeat(if rng.chance(1, 3) { V::L(gen_base(rng, 2)) } else { vi(rng.range(-5, 5)) }),
                1 => SE::Cycle(gen_base(rng, 4)),
                _ => SE::Iota(if rng.chance(1, 4) { rng.pick(edges).clone() } else { BigInt::from(rng.range(-5, 5)) }),
            },
            14 => SE::Iterate(
                // kind-preserving functions only: every element of the stream is an integer
                rng.pick(&["add:1", "add:3", "mul:2", "mul:-3", "neg", "const:4", "add:-2"]).to_string(),
                vi(rng.range(-3, 3)),
            ),
            _ => SE::Iota(BigInt::from(rng.range(-5, 5))),
        };
        let i = e.info();
        if let Some(f) = want_finite {
            if (i.finite && !i.huge) != f || i.bad {
                continue;
            }
        }
        return e;
    }
}
fn gen_fn(rng: &mut Rng, ints: bool) -> String {
    if ints {
        match rng.below(7) {
            0 => format!("add:{}", rng.range(-4, 4)),
            1 => format!("mul:{}", rng.range(-3, 3)),
            2 => "sq".into(),
            3 => "neg".into(),
            4 => "pair".into(),
            5 => format!("const:{}", rng.range(0, 3)),
            _ => format!("add:{}", rng.range(100, 200)),
        }
    } else {
        match rng.below(3) {
            0 => "lenf".into(),
            1 => "pair".into(),
            _ => format!("const:{}", rng.range(0, 3)),
        }
    }
}
fn gen_expr(rng: &mut Rng, edges: &[BigInt], depth: u32) -> SE {
    let r = rng.below(100);
    if depth == 0 || r < 45 {
        return gen_atom(rng, edges, None);
    }
    if r < 60 {
        // a position reached by dropping a prefix
        let e = gen_expr(rng, edges, depth - 1);
        let i = e.info();
        let n = if i.finite && !i.huge { rng.below(i.len as u64 + 3) } else { rng.below(7) } as usize;
        return SE::DropS(n, Box::new(e), rng.below(2) as u8);
    }
    if r < 70 {
        let e = gen_expr(rng, edges, depth - 1);
        let f = gen_fn(rng, e.info().ints);
        return SE::Map(f, Box::new(e));
    }
    if r < 80 {
        // filters only over finite streams or with predicates that keep matching
        let e = gen_expr(rng, edges, depth - 1);
        let i = e.info();
        let p = if i.finite && !i.huge {
            gen_pred(rng, &i, true).unwrap()
        } else if i.ints {
            "tt".to_string()
        } else {
            "tt".to_string()
        };
        return SE::Filter(p, Box::new(e));
    }
    if r < 90 {
        let n = 2 + rng.below(2) as usize;
        let es: Vec<SE> = (0..n).map(|_| gen_expr(rng, edges, depth - 1)).collect();
        let all_ints = es.iter().all(|e| e.info().ints);
        let f = if all_ints { *rng.pick(&["none", "plus", "lin", "firstf", "none"]) } else { *rng.pick(&["none", "firstf"]) };
        return SE::Zip(f.to_string(), es);
    }
    if r < 95 {
        // reversal that stays a stream: repeat / cycle
        let e = match rng.below(2) {
            0 => SE::Repeat(vi(rng.range(-5, 5))),
            _ => {
                let mut b = gen_base(rng, 4);
                if b.is_empty() {
                    b.push(vi(1));
                }
                let c = SE::Cycle(b);
                if rng.chance(1, 2) { SE::DropS(rng.below(6) as usize, Box::new(c), 0) } else { c }
            }
        };
        return SE::RevS(Box::new(e));
    }
    // drop-while over a finite stream
    let e = gen_expr(rng, edges, depth - 1);
    let i = e.info();
    if i.finite && !i.huge && !i.bad {
        let p = gen_pred(rng, &i, true).unwrap();
        SE::DropWhile(p, Box::new(e))
    } else {
        e
    }
}


// ---------------------------------------------------------------------------------------------
// streams driven by PARTIAL functions: the step function of `iterate` stops (`break`) or raises
// after k steps, the function of lazy_map / lazy_filter / lazy_zip raises at one element.
// By construction every such stream ends or reaches its error after a few elements.
fn small_int_stream(rng: &mut Rng) -> (SE, Vec<i64>) {
    // a stream of integers and its first elements
    match rng.below(4) {
        0 => {
            let a = rng.range(-3, 3);
            let n = rng.range(0, 6);
            (SE::Til(BigInt::from(a), BigInt::from(a + n), None, 0), (a..a + n).collect())
        }
        1 => {
            let n = rng.below(6) as i64;
            let l: Vec<i64> = (0..n).map(|_| rng.range(-4, 6)).collect();
            (SE::Wrap(l.iter().map(|x| vi(*x)).collect(), 0), l)
        }
        2 => {
            let a = rng.range(-3, 3);
            (SE::Iota(BigInt::from(a)), (a..a + 6).collect())
        }
        _ => {
            let (e, els) = partial_iterate(rng);
            (e, els)
        }
    }
}
fn partial_iterate(rng: &mut Rng) -> (SE, Vec<i64>) {
    let v = rng.range(-3, 3);
    let k = rng.range(-1, 4);
    let c = v + k;
    let name = if rng.chance(1, 2) { "stopge" } else { "failge" };
    let els: Vec<i64> = (v..=v.max(c)).collect();
    (SE::Iterate(format!("{}:{}", name, c), vi(v)), els)
}
fn pick_hit(rng: &mut Rng, els: &[i64], may_miss: bool) -> i64 {
    if els.is_empty() || (may_miss && rng.chance(1, 5)) {
        if may_miss { 77 } else { 0 }
    } else {
        els[rng.below(els.len().min(5) as u64) as usize]
    }
}
fn gen_partial(rng: &mut Rng) -> SE {
    let mut e = match rng.below(8) {
        0 | 1 | 2 => partial_iterate(rng).0,
        3 | 4 => {
            let (inner, els) = small_int_stream(rng);
            let miss_ok = inner.info().finite;
            SE::Map(format!("mfail:{}", pick_hit(rng, &els, miss_ok)), Box::new(inner))
        }
        5 | 6 => {
            let (inner, els) = small_int_stream(rng);
            let miss_ok = inner.info().finite;
            SE::Filter(format!("pfail:{}", pick_hit(rng, &els, miss_ok)), Box::new(inner))
        }
        _ => {
            let (a, els) = small_int_stream(rng);
            let (b, _) = small_int_stream(rng);
            let miss_ok = a.info().finite || b.info().finite;
            SE::Zip(format!("zfail:{}", pick_hit(rng, &els, miss_ok)), vec![a, b])
        }
    };
    // something on top: a position, a total or partial adaptor, a drop with a predicate
    for _ in 0..rng.below(3) {
        e = match rng.below(7) {
            0 | 1 => SE::DropS(rng.below(7) as usize, Box::new(e), rng.below(2) as u8),
            2 => SE::Map(rng.pick(&["add:1", "mul:2", "neg", "add:-3", "const:2"]).to_string(), Box::new(e)),
            3 => SE::Filter(rng.pick(&["even", "tt", "ff", "gt:0", "ne:2"]).to_string(), Box::new(e)),
            4 => SE::DropWhile(format!("lt:{}", rng.range(-2, 6)), Box::new(e)),
            5 => SE::Map(format!("mfail:{}", rng.range(-3, 6)), Box::new(e)),
            _ => SE::Filter(format!("pfail:{}", rng.range(-3, 6)), Box::new(e)),
        };
    }
    e
}
/// every step function (stop / raise after k = -1..4 steps) from a few seeds, every drop position
fn sweep_partial() -> Vec<SE> {
    let mut v = vec![];
    for seed in [-1i64, 0, 2] {
        for k in -1i64..=4 {
            for name in ["stopge", "failge"] {
                let base = SE::Iterate(format!("{}:{}", name, seed + k), vi(seed));
                for d in 0..=(k.max(0) as usize + 2) {
                    let e = if d == 0 { base.clone() } else { SE::DropS(d, Box::new(base.clone()), (d % 2) as u8) };
                    v.push(e.clone());
                    if d <= 1 {
                        v.push(SE::Map("mul:2".into(), Box::new(e.clone())));
                        v.push(SE::Filter("even".into(), Box::new(e.clone())));
                        v.push(SE::DropWhile(format!("lt:{}", seed + k), Box::new(e.clone())));
                    }
                }
            }
        }
    }
    for c in 0i64..=6 {
        let r = SE::To(BigInt::from(1), BigInt::from(5), None, 0);
        v.push(SE::Map(format!("mfail:{}", c), Box::new(r.clone())));
        v.push(SE::Filter(format!("pfail:{}", c), Box::new(r.clone())));
        v.push(SE::Zip(format!("zfail:{}", c), vec![r.clone(), SE::Iota(BigInt::from(0))]));
        v.push(SE::Map(format!("mfail:{}", c), Box::new(SE::Iota(BigInt::from(c - 3)))));
    }
    v
}

/// exhaustive small sweep: every constructor with all small parameter combinations
fn sweep(thorough: bool) -> Vec<SE> {
    let mut v = vec![];
    let b = |n: i64| BigInt::from(n);
    let lim = if thorough { 6 } else { 4 };
    for a in [-1i64, 0, 2] {
        for e in -lim..=lim {
            for c in [-3i64, -2, -1, 0, 1, 2, 3] {
                v.push(SE::Til(b(a), b(e), Some(b(c)), 0));
                if (a + e + c) % 3 == 0 {
                    v.push(SE::To(b(a), b(e), Some(b(c)), 0));
                }
            }
        }
    }
    let two63 = num::pow(BigInt::from(2), 63);
    let two64 = num::pow(BigInt::from(2), 64);
    for base in [two63.clone(), -two63.clone(), two64.clone(), -two64.clone()] {
        for d in [0i64, 1, 4] {
            for c in [-2i64, -1, 1, 3] {
                v.push(SE::Til(base.clone(), &base + d * c, Some(b(c)), 0));
                v.push(SE::To(&base - 1, &base + d * c, Some(b(c)), 0));
            }
        }
        v.push(SE::Til(-two64.clone(), two64.clone(), Some(num::pow(BigInt::from(2), 62)), 0));
        v.push(SE::Til(two64.clone(), -two64.clone(), Some(-num::pow(BigInt::from(2), 62)), 0));
        v.push(SE::Til(base.clone(), &base + 5, Some(two64.clone()), 0));
        v.push(SE::Til(base.clone(), &base - 5, Some(-two64.clone()), 0));
    }
    let maxn = if thorough { 5 } else { 4 };
    for n in 0..=maxn {
        let l: Vec<V> = (1..=n as i64).map(vi).collect();
        v.push(SE::Perms(l.clone(), 0));
        v.push(SE::Subseqs(l.clone()));
        v.push(SE::Wrap(l.clone(), 0));
        if n > 0 {
            v.push(SE::Cycle(l.clone()));
        }
        for k in 0..=n + 1 {
            v.push(SE::Combs(l.clone(), k as i64));
        }
        for k in 0..=3 {
            if n <= 3 || k <= 2 {
                v.push(SE::Cpow(l.clone(), k));
            }
        }
    }
    v.push(SE::Cycle(vec![]));
    v.push(SE::Perms(vec![vi(1), vi(1), vi(2)], 0));
    // regression inputs of the defects fixed through this check (F3, F4, F14, F15, F19, F21 and
    // Combinations::peek); they must keep passing
    v.push(SE::Til(b(10), b(0), Some(b(-3)), 0));
    v.push(SE::Wrap(vec![vi(1), vi(2), vi(3)], 0));
    v.push(SE::Perms(vec![], 0));
    v.push(SE::Cpow(vec![], 0));
    v.push(SE::DropWhile("lt:3".into(), Box::new(SE::To(b(1), b(5), None, 0))));
    v.push(SE::DropWhile("tt".into(), Box::new(SE::Combs(vec![vi(1), vi(2)], 3))));
    v.push(SE::Map("lenf".into(), Box::new(SE::DropWhile("tt".into(), Box::new(SE::Combs(vec![vi(1), vi(2)], 3))))));
    v
}

// ---------------------------------------------------------------------------------------------
// cases
struct Case {
    expr: SE,
    info: Info,
    obs: Vec<Obs>,
}

/// elements to test membership with: a short prefix of the stream as the model would produce it
/// is not available here, so derive candidates from the constructor
fn candidate_elems(e: &SE, skip: usize) -> Vec<V> {
    match e {
        SE::Til(a, _, c, _) | SE::To(a, _, c, _) => {
            let c = c.clone().unwrap_or_else(|| BigInt::from(1));
            (0..4).map(|i| V::I(a + &c * (skip + i))).collect()
        }
        SE::Iota(a) => (0..4).map(|i| V::I(a + (skip + i))).collect(),
        SE::Perms(l, _) => {
            let mut x = l.clone();
            x.reverse();
            vec![V::L(x)]
        }
        SE::Combs(l, k) => vec![V::L(l.iter().rev().take((*k).max(0) as usize).rev().cloned().collect())],
        SE::Subseqs(l) => vec![V::L(l.clone())],
        SE::Cpow(l, k) => {
            if l.is_empty() {
                vec![V::L(vec![])]
            } else {
                vec![V::L(vec![l[l.len() - 1].clone(); (*k).max(0) as usize])]
            }
        }
        SE::Wrap(l, _) => l.iter().skip(skip).cloned().collect(),
        SE::Cycle(l) => l.clone(),
        SE::Repeat(v) => vec![v.clone()],
        SE::Iterate(_, v) if skip == 0 => vec![v.clone()],
        SE::DropS(n, e, _) => candidate_elems(e, skip + n),
        _ => vec![],
    }
}

/// an observation on a stream derived from the variable: `s drop k`, `s[k:]`, `tail(s)`, possibly
/// twice.  The variable itself has usually been observed before (its length asked, iterated,
/// indexed): a derived position must answer for its own remaining elements.
fn gen_derived_obs(rng: &mut Rng, expr: &SE, info: &Info, uniq: usize, force_k: Option<usize>) -> Option<Obs> {
    if info.bad || info.huge {
        return None;
    }
    let pick_k = |rng: &mut Rng, i: &Info| -> usize {
        if i.finite { rng.below(i.len as u64 + 2) as usize } else { rng.below(6) as usize }
    };
    let k = force_k.unwrap_or_else(|| pick_k(rng, info));
    let variant = rng.below(3) as u8;
    let mut dexpr = SE::DropS(k, Box::new(expr.clone()), variant.min(1));
    let mut dsrc = match (k, variant) {
        (1, 2) => "tail(s)".to_string(),
        (_, 0) => format!("(s)[{}:]", k),
        _ => format!("(s drop {})", k),
    };
    if force_k.is_none() && rng.chance(1, 4) {
        let i1 = dexpr.info();
        let k2 = pick_k(rng, &i1);
        dexpr = SE::DropS(k2, Box::new(dexpr), 1);
        dsrc = format!("({} drop {})", dsrc, k2);
    }
    let dinfo = dexpr.info();
    // the result must be a stream again for the model's `dropS` (repeat / default slices are)
    let delems = candidate_elems(&dexpr, 0);
    let mut o = gen_obs(rng, &dinfo, &delems, uniq);
    o.src = subst_s(&o.src, &dsrc);
    o.derived = Some(dexpr);
    Some(o)
}

fn make_case(rng: &mut Rng, expr: SE, nobs: usize, uniq: &mut usize) -> Case {
    let info = expr.info();
    let elems = candidate_elems(&expr, 0);
    let mut obs = vec![];
    if info.bad {
        obs.push(Obs { src: "len(s)".into(), tok: "len".into(), kind: "len", derived: None });
    } else {
        for _ in 0..nobs {
            *uniq += 1;
            if rng.chance(1, 3) {
                if let Some(o) = gen_derived_obs(rng, &expr, &info, *uniq, None) {
                    obs.push(o);
                    continue;
                }
            }
            obs.push(gen_obs(rng, &info, &elems, *uniq));
        }
        // always end with a second look at length and contents: nothing may have moved
        let can_len = info.len_override || (info.finite && !info.huge);
        if can_len {
            obs.push(Obs { src: "len(s)".into(), tok: "len".into(), kind: "len", derived: None });
        }
        if info.finite && !info.huge {
            obs.push(Obs { src: "list(s)".into(), tok: "list".into(), kind: "list", derived: None });
        }
        // ... and, the length of the variable having been asked, every derived position must still
        // count its own elements: one step further, and the exhausted tail
        if can_len && !info.huge {
            let ks: Vec<usize> = if info.finite { vec![1, info.len, info.len.saturating_sub(1)] } else { vec![1, 3] };
            for (n, k) in ks.into_iter().enumerate() {
                let dexpr = SE::DropS(k, Box::new(expr.clone()), 1);
                let (src, tok, kind) = match n {
                    0 => (format!("len(s drop {})", k), "len", "len"),
                    1 => (format!("if (s drop {}) 1 else 0", k), "truthy", "truthy"),
                    _ => (format!("only((s)[{}:])", k), "only", "only"),
                };
                obs.push(Obs { src, tok: tok.into(), kind, derived: Some(dexpr) });
            }
        }
    }
    Case { expr, info, obs }
}

// ---------------------------------------------------------------------------------------------
// worker: evaluates cases read from a file, prints one line per evaluation
fn worker(path: &str) {
    install_quiet_panic_hook();
    let text = std::fs::read_to_string(path).expect("worker input");
    let out = std::io::stdout();
    let mut interp: Option<Interp> = None;
    for line in text.lines() {
        let mut parts = line.splitn(3, '\t');
        let tag = parts.next().unwrap_or("");
        let id = parts.next().unwrap_or("");
        let src = parts.next().unwrap_or("");
        {
            let mut o = out.lock();
            writeln!(o, "B\t{}", id).ok();
            o.flush().ok();
        }
        let res = match tag {
            "D" => {
                let it = Interp::new();
                let r = it.eval(&format!("s := {}; 0", src));
                interp = Some(it);
                r
            }
            "P" => Interp::new().eval(src),
            _ => match &interp {
                Some(it) => it.eval(src),
                None => Outcome::Throw("no interpreter".into()),
            },
        };
        let mut o = out.lock();
        writeln!(o, "R\t{}\t{}\t{}", id, res.class(), res.detail().replace(['\t', '\n'], " ").chars().take(160).collect::<String>()).ok();
        o.flush().ok();
    }
}

/// run all evaluations in child processes; returns id -> (class, detail)
fn run_real(lines: &[(String, String)], exe: &str, notes: &mut Vec<String>) -> HashMap<String, (String, String)> {
    let mut results: HashMap<String, (String, String)> = HashMap::new();
    let mut start = 0usize;
    let mut restarts = 0;
    let mut hangs = 0u32;
    while start < lines.len() {
        if hangs >= 10 {
            notes.push(format!(
                "stopped evaluating after {} hung / aborted evaluations; {} of {} evaluations not run",
                hangs,
                lines.len() - start,
                lines.len()
            ));
            break;
        }
        let patience = if hangs < 3 { 8 } else { 3 };
        let path = format!("/tmp/c11-worker-{}-{}.txt", std::process::id(), restarts);
        let body: String = lines[start..]
            .iter()
            .map(|(id, l)| {
                let (tag, src) = l.split_once('\t').unwrap_or(("O", ""));
                format!("{}\t{}\t{}\n", tag, id, src)
            })
            .collect();
        std::fs::write(&path, body).expect("write worker input");
        let mut child = Command::new("sh")
            .arg("-c")
            .arg(format!("ulimit -v 6000000; exec '{}' --worker '{}'", exe, path))
            .stdout(Stdio::piped())
            .stderr(Stdio::null())
            .spawn()
            .expect("spawn worker");
        let stdout = child.stdout.take().unwrap();
        let (tx, rx) = mpsc::channel::<String>();
        let reader = std::thread::spawn(move || {
            for l in BufReader::new(stdout).lines().flatten() {
                if tx.send(l).is_err() {
                    break;
                }
            }
        });
        let mut current: Option<String> = None;
        let mut done_here = 0usize;
        let mut failed: Option<&'static str> = None;
        loop {
            match rx.recv_timeout(Duration::from_secs(patience)) {
                Ok(l) => {
                    let p: Vec<&str> = l.splitn(4, '\t').collect();
                    if p[0] == "B" {
                        current = Some(p[1].to_string());
                    } else if p[0] == "R" && p.len() >= 3 {
                        results.insert(p[1].to_string(), (p[2].to_string(), p.get(3).unwrap_or(&"").to_string()));
                        current = None;
                        done_here += 1;
                    }
                }
                Err(mpsc::RecvTimeoutError::Timeout) => {
                    failed = Some("hang");
                    break;
                }
                Err(mpsc::RecvTimeoutError::Disconnected) => {
                    if current.is_some() {
                        failed = Some("abort");
                    }
                    break;
                }
            }
        }
        let _ = child.kill();
        let _ = child.wait();
        if std::env::var("C11_DEBUG").is_ok() {
            eprintln!("worker {} from {} done_here {} failed {:?} current {:?}", restarts, start, done_here, failed, current);
            if let Some(id) = &current {
                let cid = id.split('.').next().unwrap_or("").to_string();
                for (i, l) in lines.iter() {
                    if i.split('.').next().unwrap_or("") == cid {
                        eprintln!("   {} {}", i, l);
                    }
                }
            }
        }
        let _ = reader.join();
        let _ = std::fs::remove_file(&path);
        match failed {
            None => {
                if done_here == 0 && start < lines.len() && current.is_none() {
                    // the worker produced nothing: avoid looping forever
                    notes.push("worker produced no output".into());
                    break;
                }
                start += done_here;
                if start < lines.len() {
                    restarts += 1;
                    if restarts > 200 {
                        notes.push("too many worker restarts".into());
                        break;
                    }
                }
            }
            Some(what) => {
                hangs += 1;
                let id = current.clone().unwrap_or_default();
                results.insert(id.clone(), (what.to_string(), format!("{}: no result within {} s / process died", what, patience)));
                // skip the rest of this case: its interpreter state is gone
                let case_id = id.split('.').next().unwrap_or("").to_string();
                let mut next = start + done_here + 1;
                while next < lines.len() && lines[next].0.split('.').next().unwrap_or("") == case_id {
                    next += 1;
                }
                start = next;
                restarts += 1;
                if restarts > 200 {
                    notes.push("too many worker restarts".into());
                    break;
                }
            }
        }
    }
    results
}

fn main() {
    let args = parse_args();
    if args.extra.first().map(|s| s.as_str()) == Some("--worker") {
        worker(&args.extra[1]);
        return;
    }
    install_quiet_panic_hook();
    let exe = std::env::current_exe().unwrap().to_string_lossy().to_string();
    let mut rep = Report::new("C11", &args);
    rep.rule = "stream expressions: exhaustive sweep of every constructor over small parameters (range bounds x steps \
                of both signs and 0, +-2^63 / +-2^64 neighbourhoods, base lists of length 0..5, selection sizes \
                0..len+1) plus random compositions (drop positions, lazy_map / lazy_filter / lazy_zip, reverse, \
                drop-while) to depth 3; each bound to one variable and observed 10-14 times in random order \
                (len, list / splat / for, index and slice bounds in [-len-2, len+2], reverse, first, last, in, \
                truthiness, unpack with and without splat, take-while), ending with len and list again; a case is \
                non-trivial unless it is a plain `a til b` / `a to b` with default step and no drop; distinct = \
                distinct (stream expression, observation)"
        .into();

    // replay mode
    if let Some(path) = &args.replay {
        let text = std::fs::read_to_string(path).expect("replay file");
        for line in text.lines() {
            if let Some(rest) = line.strip_prefix("input: ") {
                let lines = vec![("0.0".to_string(), format!("P\t{}", rest))];
                let mut notes = vec![];
                let r = run_real(&lines, &exe, &mut notes);
                println!("rust: {}", r.get("0.0").map(|x| x.1.clone()).unwrap_or("?".into()));
            }
            if let Some(rest) = line.strip_prefix("request: ") {
                let r = run_driver(&args.driver, &[rest.to_string()]);
                println!("model (impl, spec, kind): {}", r[0]);
            }
        }
        return;
    }

    let thorough = args.tier == "thorough";
    let mut rng = Rng::new(args.seed);
    let edges = edge_ints();
    let (n_random, nobs) = if thorough { (120_000usize, 12usize) } else { (8_000usize, 11usize) };
    let mut uniq = 0usize;
    let mut cases: Vec<Case> = vec![];
    for e in sweep(thorough) {
        // every drop position of every swept stream
        let info = e.info();
        let positions: Vec<usize> = if info.finite && !info.huge {
            let maxp = if thorough { info.len + 1 } else { (info.len + 1).min(7) };
            (0..=maxp).collect()
        } else {
            vec![0, 1, 3]
        };
        for p in positions {
            let ex = if p == 0 { e.clone() } else { SE::DropS(p, Box::new(e.clone()), (p % 2) as u8) };
            let k = if thorough { 8 } else { 5 };
            cases.push(make_case(&mut rng, ex, k, &mut uniq));
            if info.bad {
                break;
            }
        }
    }
    for _ in 0..n_random {
        let e = gen_expr(&mut rng, &edges, 3);
        cases.push(make_case(&mut rng, e, nobs, &mut uniq));
    }
    // function-driven streams with partial functions
    for e in sweep_partial() {
        cases.push(make_case(&mut rng, e, if thorough { 12 } else { 9 }, &mut uniq));
    }
    let n_partial = if thorough { 25_000 } else { 1_500 };
    for _ in 0..n_partial {
        let e = gen_partial(&mut rng);
        cases.push(make_case(&mut rng, e, nobs, &mut uniq));
    }

    // the real interpreter
    let mut lines: Vec<(String, String)> = vec![];
    for (ci, c) in cases.iter().enumerate() {
        lines.push((format!("{}.d", ci), format!("D\t{}", c.expr.src())));
        for (oi, o) in c.obs.iter().enumerate() {
            lines.push((format!("{}.{}", ci, oi), format!("O\t{}", o.src)));
        }
    }
    let mut notes = vec![];
    let real = run_real(&lines, &exe, &mut notes);

    // the model
    let mut requests = vec![];
    let mut meta = vec![];
    for (ci, c) in cases.iter().enumerate() {
        let etok = c.expr.tok();
        for (oi, o) in c.obs.iter().enumerate() {
            match &o.derived {
                Some(d) => requests.push(format!("{} @ {}", o.tok, d.tok())),
                None => requests.push(format!("{} @ {}", o.tok, etok)),
            }
            meta.push((ci, oi));
        }
    }
    if let Ok(path) = std::env::var("C11_DUMP") {
        let _ = std::fs::write(path, requests.join("\n") + "\n");
    }
    let resp = run_driver(&args.driver, &requests);

    let mut unspecified = 0u64;
    let mut unsupported = 0u64;
    let mut skipped = 0u64;
    let mut per_key: HashMap<String, u64> = HashMap::new();
    for (ri, (ci, oi)) in meta.iter().enumerate() {
        let c = &cases[*ci];
        let o = &c.obs[*oi];
        let class = match &o.derived {
            Some(_) => format!("{}~derived", c.expr.class()),
            None => c.expr.class(),
        };
        let class = if c.info.partial { format!("partial:{}", class) } else { class };
        let decl = real.get(&format!("{}.d", ci));
        let decl_class = decl.map(|x| x.0.clone()).unwrap_or("missing".into());
        let rust = if decl_class != "ok 0" {
            // the constructor itself failed: that is the outcome of every observation
            if *oi > 0 {
                continue;
            }
            decl_class.clone()
        } else {
            match real.get(&format!("{}.{}", ci, oi)) {
                Some(r) => r.0.clone(),
                None => {
                    skipped += 1;
                    continue;
                }
            }
        };
        let parts: Vec<&str> = resp[ri].split('\t').collect();
        if parts[0] == "unsupported" {
            // a composition of named functions with elements of the wrong kind: outside the model
            // (the generators are written not to produce any; counted so that a slip is visible)
            unsupported += 1;
            continue;
        }
        let src_full = format!("s := {}; {}", c.expr.src(), o.src);
        let nontrivial = !matches!(c.expr, SE::Til(_, _, None, _) | SE::To(_, _, None, _));
        rep.case(&format!("{} | {}", o.derived.as_ref().map(|d| d.tok()).unwrap_or_else(|| c.expr.tok()), o.tok), nontrivial);
        rep.arm(&format!("{}/{}", class, o.kind));
        rep.outcome(if rust.starts_with("ok") { "ok" } else { rust.split(' ').next().unwrap_or("?") });
        let key = format!("{}/{}", class, o.kind);
        if parts.len() < 3 {
            rep.judge(&format!("driver:{}", key), &format!("{}\nrequest: {}", src_full, requests[ri]), &rust, &resp[ri], &resp[ri]);
            continue;
        }
        if parts[2].contains("unspecified") {
            unspecified += 1;
        }
        // history: everything observed on this variable before this observation
        let input = if rust != parts[1] || rust != parts[0] {
            let n = per_key.entry(key.clone()).or_insert(0);
            *n += 1;
            if *n > 6 {
                continue; // enough examples of this class; the count goes to the notes
            }
            let alone = if *n <= 3 && rust != "hang" && rust != "abort" {
                eval_alone(&exe, &c.expr.src(), &o.src)
            } else {
                rust.clone()
            };
            if alone == rust {
                format!("{}\nrequest: {}", src_full, requests[ri])
            } else {
                let hist: Vec<String> = c.obs[..*oi].iter().map(|x| x.src.clone()).collect();
                format!(
                    "s := {}; {}; {}\nrequest: {}\nnote: alone (`{}`) the observation gives `{}`: an earlier observation changed the variable",
                    c.expr.src(), hist.join("; "), o.src, requests[ri], src_full, alone
                )
            }
        } else {
            String::new()
        };
        rep.judge(&key, &input, &rust, parts[0], parts[1]);
    }
    rep.notes.extend(notes);
    for (k, n) in per_key.iter() {
        if *n > 6 {
            rep.notes.push(format!("disagreements of class {}: {} (6 recorded)", k, n));
        }
    }
    rep.notes.push(format!("cases (stream variables): {}", cases.len()));
    rep.notes.push(format!("observations where the property is silent (negative positions / reversal of infinite streams, progressions longer than 10^7): {} (compared with the Impl model only)", unspecified));
    rep.notes.push(format!("requests outside the model (ill-kinded function applications, never intended): {}", unsupported));
    if skipped > 0 {
        rep.notes.push(format!("observations skipped after a hang/abort in the same case: {}", skipped));
    }
    let _ = cases.iter().map(|c| c.info.finite).count();
    rep.write(&args.out);
}

/// one declaration + one observation in a fresh child (for minimising a disagreement)
fn eval_alone(exe: &str, decl: &str, obs: &str) -> String {
    let lines = vec![("0.d".to_string(), format!("D\t{}", decl)), ("0.0".to_string(), format!("O\t{}", obs))];
    let mut notes = vec![];
    let r = run_real(&lines, exe, &mut notes);
    match r.get("0.d") {
        Some(d) if d.0 != "ok 0" => d.0.clone(),
        _ => r.get("0.0").map(|x| x.0.clone()).unwrap_or("missing".into()),
    }
}
