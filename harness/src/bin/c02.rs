//! C02 measured correspondence: "mutating an unshared collection is in place: no hidden copies".
//!
//! A counting `#[global_allocator]` measures the bytes requested from the allocator while
//! `noulith::evaluate` runs a workload of k = Theta(n) in-place-eligible mutation statements on a
//! collection of n elements (unaliased, and once-aliased `qy := qx`), at three sizes n0, 2 n0, 4 n0, in a
//! fresh interpreter each.  Verdict per (family, variant):
//!   (a) growth exponents between successive sizes (< 1.3 linear, >= 1.7 quadratic, else unclear);
//!   (b) absolute bound  bytes <= ALPHA + BETA (n + k) + GAMMA * copied * ELEM, where `copied` is the
//!       number of elements the Lean cost ledger (driver_c02, the C01 reference-counted heap) says
//!       make_mut copies during the whole history; families outside the model's statement vocabulary
//!       use the closed form (0 unaliased, n once-aliased) and are marked measured-only.
//! A control family that keeps an alias alive inside the loop (one full copy per statement) must be
//! classified quadratic AND violate (b): the self-test of the measurement.
use std::alloc::{GlobalAlloc, Layout, System};
use std::panic::{catch_unwind, AssertUnwindSafe};
use std::sync::atomic::{AtomicU64, Ordering::Relaxed};
use vharness::*;

// ---------------------------------------------------------------------------------------------
// counting allocator
struct Counting;
// the switch is per thread: only the measuring (main) thread is ever counted, so the Lean driver can be fed from
// background threads while the interpreter is measured (const-initialised Cell<bool>: no lazy init, no destructor,
// safe to touch inside the allocator)
thread_local! {
    static ON: std::cell::Cell<bool> = const { std::cell::Cell::new(false) };
}
#[inline]
fn counting() -> bool {
    ON.try_with(|c| c.get()).unwrap_or(false)
}
fn set_counting(v: bool) {
    ON.with(|c| c.set(v));
}
static BYTES: AtomicU64 = AtomicU64::new(0);
static CALLS: AtomicU64 = AtomicU64::new(0);
static LARGEST: AtomicU64 = AtomicU64::new(0);
static BIG_THRESH: AtomicU64 = AtomicU64::new(u64::MAX);
static BIG_CALLS: AtomicU64 = AtomicU64::new(0);
static REALLOCS: AtomicU64 = AtomicU64::new(0);

#[inline]
fn note(size: usize) {
    if counting() {
        let s = size as u64;
        BYTES.fetch_add(s, Relaxed);
        CALLS.fetch_add(1, Relaxed);
        if s > LARGEST.load(Relaxed) {
            LARGEST.store(s, Relaxed);
        }
        if s >= BIG_THRESH.load(Relaxed) {
            BIG_CALLS.fetch_add(1, Relaxed);
        }
    }
}
unsafe impl GlobalAlloc for Counting {
    unsafe fn alloc(&self, l: Layout) -> *mut u8 {
        note(l.size());
        System.alloc(l)
    }
    unsafe fn alloc_zeroed(&self, l: Layout) -> *mut u8 {
        note(l.size());
        System.alloc_zeroed(l)
    }
    unsafe fn dealloc(&self, p: *mut u8, l: Layout) {
        System.dealloc(p, l)
    }
    unsafe fn realloc(&self, p: *mut u8, l: Layout, new_size: usize) -> *mut u8 {
        // the new size is counted in full, for growing AND shrinking reallocs (growth by doubling is
        // amortised O(total) anyway), and the call counts as an allocation call
        note(new_size);
        if counting() {
            REALLOCS.fetch_add(1, Relaxed);
        }
        System.realloc(p, l, new_size)
    }
}
#[global_allocator]
static GLOBAL: Counting = Counting;

// ---------------------------------------------------------------------------------------------
// calibration (see the per(n+k) column in rep.notes; measured on the unchanged tree, identical at every size):
//   * the honest cost per unit of (n + k), k = n, is 228 (dict_discard) .. 420 (x[i] = v on any collection:
//     7 allocator calls and 840 bytes per loop iteration: a fresh scope per iteration, the evaluated
//     index list, boxed l-values) .. 661 bytes (dict_union: a one-entry dict per iteration plus the
//     rehash growth of the target), 666 (dk_multi: two lists growing under two dict keys) .. 926 bytes
//     (mg_group_struct aliased: `qx[fa] ||++= {7: [i]}` builds a one-entry dict holding a one-element list per
//     iteration and walks a struct field).  BETA = 2800 leaves a factor 3 over the most expensive honest
//     family and 6.7 over the typical one;
//     push/pop pairs (pp_*, k = 2n statements) cost 197 .. 565 bytes per unit of (n + k);
//   * ALPHA covers the constant part (first growth steps, the range object);
//   * GAMMA = 2: a make_mut copy allocates exactly len * ELEM for Vec payloads (measured ratio
//     aliased-unaliased / (copied * ELEM) = 1.000) and at most 16/7 * len entries for a hash map (folded
//     into ELEM for dicts; measured 0.895 of that).
// One hidden copy per statement costs n * ELEM bytes per statement: at n = 2000 that is 2000 * 2000 * 48
// = 192 MB against a bound of ~11.5 MB (the control family measures exactly this: x17 over the bound).
const ALPHA: u64 = 64 * 1024;
const BETA: u64 = 2800;
const GAMMA: u64 = 2;
/// families whose every statement calls a user-defined closure (uc_*): the call itself (argument vector, a scope
/// for the parameters, the body's statements) costs 1.2-2.2 kB per call on the unchanged tree, 590 .. 1097 bytes per
/// unit of (n + k); BETA_CALL leaves the same factor ~3.  One hidden copy per call is n * ELEM = 96 kB at n = 2000.
const BETA_CALL: u64 = 3500;
fn beta_for(family: &str) -> u64 {
    if core_name(family).starts_with("uc_") {
        BETA_CALL
    } else {
        BETA
    }
}
/// model requests are sent for sizes up to this n (the Lean list model is O(n) per statement)
const MODEL_MAX_N: u64 = 16_384;
const MODEL_MAX_N_CONTROL: u64 = 2_000;

#[derive(Clone, Copy)]
struct Sz {
    n: u64, // nominal number of elements
    r: u64, // isqrt(n): rows x columns of the square nested families
    w: u64, // n / 4: row length of the 4-row nested family
}
impl Sz {
    fn new(n: u64) -> Sz {
        let mut r = (n as f64).sqrt() as u64;
        while r * r > n {
            r -= 1;
        }
        while (r + 1) * (r + 1) <= n {
            r += 1;
        }
        Sz { n, r, w: n / 4 }
    }
    fn prelude(&self) -> String {
        format!("qn := {}; qr := {}; qw := {}", self.n, self.r, self.w)
    }
}

#[derive(Clone, Copy, PartialEq)]
enum Kind {
    List,
    Dict,
    Vector,
    Bytes,
}
fn elem_size(k: Kind) -> u64 {
    let obj = std::mem::size_of::<noulith::Obj>() as u64;
    match k {
        Kind::List => obj,
        // (key, value) + control byte, at the minimum load factor 7/16 of hashbrown
        Kind::Dict => ((std::mem::size_of::<noulith::ObjKey>() as u64 + obj + 1) * 16 + 6) / 7,
        Kind::Vector => std::mem::size_of::<noulith::nnum::NNum>() as u64,
        Kind::Bytes => 1,
    }
}

#[derive(Clone, Copy)]
struct Family {
    name: &'static str,
    kind: Kind,
    setup: &'static str,
    work: &'static str,
    /// check expression evaluated after the workload and its expected canonical value
    check: &'static str,
    expect: fn(&Sz) -> String,
    /// the same for the alias `qy` (must still hold the original contents)
    check_alias: &'static str,
    expect_alias: fn(&Sz) -> String,
    nelem: fn(&Sz) -> u64,
    k: fn(&Sz) -> u64,
    /// closed-form prediction of the number of elements copied: (unaliased, once-aliased)
    copied: fn(&Sz) -> (u64, u64),
    in_model: bool,
}

fn tri(n: u64) -> u64 {
    n * n.saturating_sub(1) / 2
}
fn n_of(s: &Sz) -> u64 {
    s.n
}
fn rr_plus_r(s: &Sz) -> u64 {
    s.r * s.r + s.r
}
fn rr(s: &Sz) -> u64 {
    s.r * s.r
}
fn flat(s: &Sz) -> (u64, u64) {
    (0, s.n)
}

const LIST_SETUP: &str = "qx := [0] ** qn";
const DICT_SETUP: &str = "qx := {}; for (i <- 0 til qn) qx[i] = i";
const ROWS_SETUP: &str = "qx := []; for (i <- 0 til qr) qx append= ([0] ** qr)";
const STRUCT_SETUP: &str = "struct Foo(fa, fb); qx := Foo([0] ** qn, 7)";
const PP_BUILT: &str = "qx := []; for (i <- 0 til qn) qx append= i";
const PP_HALF: &str = "qx := []; for (i <- 0 til 2 * qn) qx append= i; for (i <- 0 til qn) pop qx";
const DD_SETUP: &str = "qx := {:[]}; for (i <- 0 til qn) qx[7] append= i";
const DD_STRUCT_SETUP: &str = "struct Foo(fa, fb); qx := Foo({:[]}, 7); for (i <- 0 til qn) qx[fa][7] append= i";
const PD_SETUP: &str = "qx := {}; qx[7] = []; for (i <- 0 til qn) qx[7] append= i";
const WD_SETUP: &str = "qx := {7: [0] ** qn}";
const DK_SETUP: &str = "qx := {\"a\": [0] ** qn}";
const DLD_SETUP: &str = "qx := {\"a\": [{\"b\": [0] ** qn}]}";
const SD_SETUP: &str = "struct Foo(fa, fb); qx := Foo({\"a\": [0] ** qn}, 7)";

fn families() -> Vec<Family> {
    let ls = "[len(qx), sum(qx)]";
    let la = "[len(qy), sum(qy)]";
    let dv = "[len(qx), sum(values(qx))]";
    let dva = "[len(qy), sum(values(qy))]";
    let dk = "[len(qx), sum(keys(qx))]";
    let dka = "[len(qy), sum(keys(qy))]";
    let rows = "[len(qx), sum(qx map len), sum(qx map sum)]";
    let rowsa = "[len(qy), sum(qy map len), sum(qy map sum)]";
    let st = "[len(qx[fa]), sum(qx[fa]), qx[fb]]";
    let sta = "[len(qy[fa]), sum(qy[fa]), qy[fb]]";
    let orig_list: fn(&Sz) -> String = |s| format!("[{},0]", s.n);
    let orig_dict: fn(&Sz) -> String = |s| format!("[{},{}]", s.n, tri(s.n));
    let orig_rows: fn(&Sz) -> String = |s| format!("[{},{},0]", s.r, s.r * s.r);
    let orig_struct: fn(&Sz) -> String = |s| format!("[{},0,7]", s.n);
    vec![
        // ------------------------------------------------------------------ lists
        Family { name: "list_set", kind: Kind::List, setup: LIST_SETUP, work: "for (i <- 0 til qn) qx[i] = i",
            check: ls, expect: |s| format!("[{},{}]", s.n, tri(s.n)), check_alias: la, expect_alias: orig_list,
            nelem: n_of, k: n_of, copied: flat, in_model: true },
        Family { name: "list_append", kind: Kind::List, setup: LIST_SETUP, work: "for (i <- 0 til qn) qx append= i",
            check: ls, expect: |s| format!("[{},{}]", 2 * s.n, tri(s.n)), check_alias: la, expect_alias: orig_list,
            nelem: n_of, k: n_of, copied: flat, in_model: true },
        // the collection itself used as a condition / scrutinee around its own mutation: the value the
        // condition produced must not be held while the body runs (it would be a second holder)
        Family { name: "cond_if", kind: Kind::List, setup: LIST_SETUP, work: "for (i <- 0 til qn) (if (qx) qx[i] = i)",
            check: ls, expect: |s| format!("[{},{}]", s.n, tri(s.n)), check_alias: la, expect_alias: orig_list,
            nelem: n_of, k: n_of, copied: flat, in_model: false },
        Family { name: "cond_if_else", kind: Kind::List, setup: LIST_SETUP, work: "for (i <- 0 til qn) (if (qx) (qx append= i) else (qx append= 0))",
            check: ls, expect: |s| format!("[{},{}]", 2 * s.n, tri(s.n)), check_alias: la, expect_alias: orig_list,
            nelem: n_of, k: n_of, copied: flat, in_model: false },
        Family { name: "cond_and", kind: Kind::List, setup: LIST_SETUP, work: "for (i <- 0 til qn) (qx and (qx[i] = i))",
            check: ls, expect: |s| format!("[{},{}]", s.n, tri(s.n)), check_alias: la, expect_alias: orig_list,
            nelem: n_of, k: n_of, copied: flat, in_model: false },
        Family { name: "cond_guard", kind: Kind::List, setup: LIST_SETUP, work: "for (i <- 0 til qn; if qx) qx[i] = i",
            check: ls, expect: |s| format!("[{},{}]", s.n, tri(s.n)), check_alias: la, expect_alias: orig_list,
            nelem: n_of, k: n_of, copied: flat, in_model: false },
        Family { name: "cond_while", kind: Kind::List, setup: LIST_SETUP, work: "qi := 0; while (qx and qi < qn) (qx[qi] = qi; qi += 1)",
            check: ls, expect: |s| format!("[{},{}]", s.n, tri(s.n)), check_alias: la, expect_alias: orig_list,
            nelem: n_of, k: n_of, copied: flat, in_model: false },
        Family { name: "cond_switch", kind: Kind::List, setup: LIST_SETUP, work: "for (i <- 0 til qn) (switch (qx) case [] -> 0 case _ -> (qx[i] = i))",
            check: ls, expect: |s| format!("[{},{}]", s.n, tri(s.n)), check_alias: la, expect_alias: orig_list,
            nelem: n_of, k: n_of, copied: flat, in_model: false },
        Family { name: "cond_switch_pop", kind: Kind::List, setup: LIST_SETUP, work: "for (i <- 0 til qn) (switch (qx) case [] -> 0 case [_] -> (qx[0] = 1) case _: list -> (pop qx))",
            check: ls, expect: |_| "[1,1]".into(), check_alias: la, expect_alias: orig_list,
            nelem: n_of, k: n_of, copied: flat, in_model: false },
        // `x ++= y` where the right operand has another holder (a variable, a row of another list): the LEFT
        // operand is still uniquely owned and must be extended in place
        Family { name: "concat_shared_rhs", kind: Kind::List, setup: "qx := [0] ** qn; qrhs := [1, 2]", work: "for (i <- 0 til qn) qx ++= qrhs",
            check: ls, expect: |s| format!("[{},{}]", 3 * s.n, 3 * s.n), check_alias: la, expect_alias: orig_list,
            nelem: n_of, k: n_of, copied: flat, in_model: false },
        Family { name: "concat_rows_flatten", kind: Kind::List, setup: "qx := [0] ** qn; qgrid := [[1, 2]] ** qn", work: "for (row <- qgrid) qx ++= row",
            check: ls, expect: |s| format!("[{},{}]", 3 * s.n, 3 * s.n), check_alias: la, expect_alias: orig_list,
            nelem: n_of, k: n_of, copied: flat, in_model: false },
        Family { name: "list_concat", kind: Kind::List, setup: LIST_SETUP, work: "for (i <- 0 til qn) qx ++= [i]",
            check: ls, expect: |s| format!("[{},{}]", 2 * s.n, tri(s.n)), check_alias: la, expect_alias: orig_list,
            nelem: n_of, k: n_of, copied: flat, in_model: false },
        Family { name: "list_opidx", kind: Kind::List, setup: LIST_SETUP, work: "for (i <- 0 til qn) qx[i] += 1",
            check: ls, expect: |s| format!("[{},{}]", s.n, s.n), check_alias: la, expect_alias: orig_list,
            nelem: n_of, k: n_of, copied: flat, in_model: false },
        Family { name: "list_pop", kind: Kind::List, setup: LIST_SETUP, work: "for (i <- 0 til qn) pop qx",
            check: ls, expect: |_| "[0,0]".into(), check_alias: la, expect_alias: orig_list,
            nelem: n_of, k: n_of, copied: flat, in_model: true },
        Family { name: "list_remove_end", kind: Kind::List, setup: LIST_SETUP, work: "for (i <- 0 til qn) remove qx[-1]",
            check: ls, expect: |_| "[0,0]".into(), check_alias: la, expect_alias: orig_list,
            nelem: n_of, k: n_of, copied: flat, in_model: true },
        Family { name: "list_consume", kind: Kind::List, setup: LIST_SETUP,
            work: "for (i <- 0 til qn) (qt := consume qx; qt append= i; qx = consume qt)",
            check: ls, expect: |s| format!("[{},{}]", 2 * s.n, tri(s.n)), check_alias: la, expect_alias: orig_list,
            nelem: n_of, k: n_of, copied: flat, in_model: true },
        // ------------------------------------------------------------------ dicts
        Family { name: "dict_insert", kind: Kind::Dict, setup: DICT_SETUP, work: "for (i <- qn til 2 * qn) qx[i] = i",
            check: dv, expect: |s| format!("[{},{}]", 2 * s.n, tri(2 * s.n)), check_alias: dva, expect_alias: orig_dict,
            nelem: n_of, k: n_of, copied: flat, in_model: false },
        Family { name: "dict_overwrite", kind: Kind::Dict, setup: DICT_SETUP, work: "for (i <- 0 til qn) qx[i] = i + 1",
            check: dv, expect: |s| format!("[{},{}]", s.n, tri(s.n) + s.n), check_alias: dva, expect_alias: orig_dict,
            nelem: n_of, k: n_of, copied: flat, in_model: false },
        Family { name: "dict_addkey", kind: Kind::Dict, setup: DICT_SETUP, work: "for (i <- qn til 2 * qn) qx |.= i",
            check: dk, expect: |s| format!("[{},{}]", 2 * s.n, tri(2 * s.n)), check_alias: dka, expect_alias: orig_dict,
            nelem: n_of, k: n_of, copied: flat, in_model: false },
        Family { name: "dict_opidx", kind: Kind::Dict, setup: DICT_SETUP, work: "for (i <- 0 til qn) qx[i] += 1",
            check: dv, expect: |s| format!("[{},{}]", s.n, tri(s.n) + s.n), check_alias: dva, expect_alias: orig_dict,
            nelem: n_of, k: n_of, copied: flat, in_model: false },
        Family { name: "dict_discard", kind: Kind::Dict, setup: DICT_SETUP, work: "for (i <- 0 til qn) qx -.= i",
            check: dk, expect: |_| "[0,0]".into(), check_alias: dka, expect_alias: orig_dict,
            nelem: n_of, k: n_of, copied: flat, in_model: false },
        Family { name: "dict_remove", kind: Kind::Dict, setup: DICT_SETUP, work: "for (i <- 0 til qn) remove qx[i]",
            check: dk, expect: |_| "[0,0]".into(), check_alias: dka, expect_alias: orig_dict,
            nelem: n_of, k: n_of, copied: flat, in_model: false },
        Family { name: "dict_union", kind: Kind::Dict, setup: DICT_SETUP, work: "for (i <- qn til 2 * qn) qx ||= {i: i}",
            check: dv, expect: |s| format!("[{},{}]", 2 * s.n, tri(2 * s.n)), check_alias: dva, expect_alias: orig_dict,
            nelem: n_of, k: n_of, copied: flat, in_model: false },
        // ------------------------------------------------------------------ vectors, bytes, strings
        Family { name: "vec_set", kind: Kind::Vector, setup: "qx := vector([0] ** qn)", work: "for (i <- 0 til qn) qx[i] = 1",
            check: ls, expect: |s| format!("[{},{}]", s.n, s.n), check_alias: la, expect_alias: orig_list,
            nelem: n_of, k: n_of, copied: flat, in_model: false },
        Family { name: "vec_append", kind: Kind::Vector, setup: "qx := vector([0] ** qn)", work: "for (i <- 0 til qn) qx append= 1",
            check: ls, expect: |s| format!("[{},{}]", 2 * s.n, s.n), check_alias: la, expect_alias: orig_list,
            nelem: n_of, k: n_of, copied: flat, in_model: false },
        Family { name: "vec_opidx", kind: Kind::Vector, setup: "qx := vector([0] ** qn)", work: "for (i <- 0 til qn) qx[i] += 1",
            check: ls, expect: |s| format!("[{},{}]", s.n, s.n), check_alias: la, expect_alias: orig_list,
            nelem: n_of, k: n_of, copied: flat, in_model: false },
        Family { name: "bytes_set", kind: Kind::Bytes, setup: "qx := bytes([0] ** qn)", work: "for (i <- 0 til qn) qx[i] = 1",
            check: ls, expect: |s| format!("[{},{}]", s.n, s.n), check_alias: la, expect_alias: orig_list,
            nelem: n_of, k: n_of, copied: flat, in_model: false },
        Family { name: "bytes_append", kind: Kind::Bytes, setup: "qx := bytes([0] ** qn)", work: "for (i <- 0 til qn) qx append= 1",
            check: ls, expect: |s| format!("[{},{}]", 2 * s.n, s.n), check_alias: la, expect_alias: orig_list,
            nelem: n_of, k: n_of, copied: flat, in_model: false },
        Family { name: "str_set", kind: Kind::Bytes, setup: "qx := \"a\" $* qn", work: "for (i <- 0 til qn) qx[i] = \"z\"",
            check: "[len(qx), count(qx, \"z\")]", expect: |s| format!("[{},{}]", s.n, s.n),
            check_alias: "[len(qy), count(qy, \"z\")]", expect_alias: orig_list,
            nelem: n_of, k: n_of, copied: flat, in_model: false },
        // ------------------------------------------------------------------ nested rows
        Family { name: "rows_set", kind: Kind::List, setup: ROWS_SETUP,
            work: "for (i <- 0 til qr) for (j <- 0 til qr) qx[i][j] = 1",
            check: rows, expect: |s| format!("[{},{},{}]", s.r, s.r * s.r, s.r * s.r), check_alias: rowsa, expect_alias: orig_rows,
            nelem: rr_plus_r, k: rr, copied: |s| (0, s.r * s.r + s.r), in_model: true },
        Family { name: "rows_append", kind: Kind::List, setup: ROWS_SETUP,
            work: "for (i <- 0 til qr) for (j <- 0 til qr) qx[i] append= 1",
            check: rows, expect: |s| format!("[{},{},{}]", s.r, 2 * s.r * s.r, s.r * s.r), check_alias: rowsa, expect_alias: orig_rows,
            nelem: rr_plus_r, k: rr, copied: |s| (0, s.r * s.r + s.r), in_model: true },
        Family { name: "rows_shared_set", kind: Kind::List, setup: "qx := [[0] ** qr] ** qr",
            work: "for (i <- 0 til qr) for (j <- 0 til qr) qx[i][j] = 1",
            check: rows, expect: |s| format!("[{},{},{}]", s.r, s.r * s.r, s.r * s.r), check_alias: rowsa, expect_alias: orig_rows,
            nelem: rr_plus_r, k: rr, copied: |s| (s.r * (s.r - 1), s.r * s.r + s.r), in_model: true },
        Family { name: "wide_set", kind: Kind::List, setup: "qx := []; for (i <- 0 til 4) qx append= ([0] ** qw)",
            work: "for (i <- 0 til 4) for (j <- 0 til qw) qx[i][j] = 1",
            check: rows, expect: |s| format!("[4,{},{}]", 4 * s.w, 4 * s.w), check_alias: rowsa,
            expect_alias: |s| format!("[4,{},0]", 4 * s.w),
            nelem: |s| 4 * s.w + 4, k: |s| 4 * s.w, copied: |s| (0, 4 * s.w + 4), in_model: true },
        // ------------------------------------------------------------------ struct fields
        Family { name: "struct_set", kind: Kind::List, setup: STRUCT_SETUP, work: "for (i <- 0 til qn) qx[fa][i] = 1",
            check: st, expect: |s| format!("[{},{},7]", s.n, s.n), check_alias: sta, expect_alias: orig_struct,
            nelem: n_of, k: n_of, copied: flat, in_model: false },
        Family { name: "struct_append", kind: Kind::List, setup: STRUCT_SETUP, work: "for (i <- 0 til qn) qx[fa] append= 1",
            check: st, expect: |s| format!("[{},{},7]", 2 * s.n, s.n), check_alias: sta, expect_alias: orig_struct,
            nelem: n_of, k: n_of, copied: flat, in_model: false },
        // ------------------------------------------------------------------ a collection held under a dict key
        // (the operator-assignment must take the value OUT of the dict entry before the operator runs)
        Family { name: "dk_append", kind: Kind::List, setup: DK_SETUP, work: "for (i <- 0 til qn) qx[\"a\"] append= i",
            check: "[len(qx[\"a\"]), sum(qx[\"a\"])]", expect: |s| format!("[{},{}]", 2 * s.n, tri(s.n)),
            check_alias: "[len(qy[\"a\"]), sum(qy[\"a\"])]", expect_alias: orig_list,
            nelem: n_of, k: n_of, copied: flat, in_model: false },
        Family { name: "dk_concat", kind: Kind::List, setup: DK_SETUP, work: "for (i <- 0 til qn) qx[\"a\"] ++= [i]",
            check: "[len(qx[\"a\"]), sum(qx[\"a\"])]", expect: |s| format!("[{},{}]", 2 * s.n, tri(s.n)),
            check_alias: "[len(qy[\"a\"]), sum(qy[\"a\"])]", expect_alias: orig_list,
            nelem: n_of, k: n_of, copied: flat, in_model: false },
        Family { name: "dk_opidx", kind: Kind::List, setup: DK_SETUP, work: "for (i <- 0 til qn) qx[\"a\"][i] += 1",
            check: "[len(qx[\"a\"]), sum(qx[\"a\"])]", expect: |s| format!("[{},{}]", s.n, s.n),
            check_alias: "[len(qy[\"a\"]), sum(qy[\"a\"])]", expect_alias: orig_list,
            nelem: n_of, k: n_of, copied: flat, in_model: false },
        Family { name: "dk_set", kind: Kind::List, setup: DK_SETUP, work: "for (i <- 0 til qn) qx[\"a\"][i] = 1",
            check: "[len(qx[\"a\"]), sum(qx[\"a\"])]", expect: |s| format!("[{},{}]", s.n, s.n),
            check_alias: "[len(qy[\"a\"]), sum(qy[\"a\"])]", expect_alias: orig_list,
            nelem: n_of, k: n_of, copied: flat, in_model: false },
        Family { name: "dk_addkey", kind: Kind::Dict, setup: "qx := {\"a\": {}}; for (i <- 0 til qn) qx[\"a\"][i] = i",
            work: "for (i <- 0 til qn) qx[\"a\"] |.= i + qn",
            check: "[len(qx[\"a\"]), sum(keys(qx[\"a\"]))]", expect: |s| format!("[{},{}]", 2 * s.n, tri(2 * s.n)),
            check_alias: "[len(qy[\"a\"]), sum(keys(qy[\"a\"]))]", expect_alias: orig_dict,
            nelem: n_of, k: n_of, copied: flat, in_model: false },
        Family { name: "dk_multi", kind: Kind::List, setup: "qx := {1: [0] ** qn, 2: [0] ** qn}",
            work: "for (i <- 0 til qn) qx[1 + i % 2] append= i",
            check: "[len(qx[1]) + len(qx[2]), sum(qx[1]) + sum(qx[2])]", expect: |s| format!("[{},{}]", 3 * s.n, tri(s.n)),
            check_alias: "[len(qy[1]) + len(qy[2]), sum(qy[1]) + sum(qy[2])]", expect_alias: |s| format!("[{},0]", 2 * s.n),
            nelem: |s| 2 * s.n, k: n_of, copied: |s| (0, 2 * s.n), in_model: false },
        Family { name: "dld_append", kind: Kind::List, setup: DLD_SETUP, work: "for (i <- 0 til qn) qx[\"a\"][0][\"b\"] append= i",
            check: "[len(qx[\"a\"][0][\"b\"]), sum(qx[\"a\"][0][\"b\"])]", expect: |s| format!("[{},{}]", 2 * s.n, tri(s.n)),
            check_alias: "[len(qy[\"a\"][0][\"b\"]), sum(qy[\"a\"][0][\"b\"])]", expect_alias: orig_list,
            nelem: n_of, k: n_of, copied: flat, in_model: false },
        Family { name: "dld_set", kind: Kind::List, setup: DLD_SETUP, work: "for (i <- 0 til qn) qx[\"a\"][0][\"b\"][i] = 1",
            check: "[len(qx[\"a\"][0][\"b\"]), sum(qx[\"a\"][0][\"b\"])]", expect: |s| format!("[{},{}]", s.n, s.n),
            check_alias: "[len(qy[\"a\"][0][\"b\"]), sum(qy[\"a\"][0][\"b\"])]", expect_alias: orig_list,
            nelem: n_of, k: n_of, copied: flat, in_model: false },
        Family { name: "ld_append", kind: Kind::List, setup: "qx := [{\"b\": [0] ** qn}]", work: "for (i <- 0 til qn) qx[0][\"b\"] append= i",
            check: "[len(qx[0][\"b\"]), sum(qx[0][\"b\"])]", expect: |s| format!("[{},{}]", 2 * s.n, tri(s.n)),
            check_alias: "[len(qy[0][\"b\"]), sum(qy[0][\"b\"])]", expect_alias: orig_list,
            nelem: n_of, k: n_of, copied: flat, in_model: false },
        Family { name: "sd_append", kind: Kind::List, setup: SD_SETUP, work: "for (i <- 0 til qn) qx[fa][\"a\"] append= i",
            check: "[len(qx[fa][\"a\"]), sum(qx[fa][\"a\"]), qx[fb]]", expect: |s| format!("[{},{},7]", 2 * s.n, tri(s.n)),
            check_alias: "[len(qy[fa][\"a\"]), sum(qy[fa][\"a\"]), qy[fb]]", expect_alias: orig_struct,
            nelem: n_of, k: n_of, copied: flat, in_model: false },
        Family { name: "sd_set", kind: Kind::List, setup: SD_SETUP, work: "for (i <- 0 til qn) qx[fa][\"a\"][i] = 1",
            check: "[len(qx[fa][\"a\"]), sum(qx[fa][\"a\"]), qx[fb]]", expect: |s| format!("[{},{},7]", s.n, s.n),
            check_alias: "[len(qy[fa][\"a\"]), sum(qy[fa][\"a\"]), qy[fb]]", expect_alias: orig_struct,
            nelem: n_of, k: n_of, copied: flat, in_model: false },
        // default dicts: a list stored under a key, and a list materialised from the default value
        Family { name: "defdict_append", kind: Kind::List, setup: "qx := {:0}; qx[\"a\"] = [0] ** qn",
            work: "for (i <- 0 til qn) qx[\"a\"] append= i",
            check: "[len(qx[\"a\"]), sum(qx[\"a\"])]", expect: |s| format!("[{},{}]", 2 * s.n, tri(s.n)),
            check_alias: "[len(qy[\"a\"]), sum(qy[\"a\"])]", expect_alias: orig_list,
            nelem: n_of, k: n_of, copied: flat, in_model: false },
        Family { name: "defdict_fresh", kind: Kind::List, setup: "qx := {:[]}", work: "for (i <- 0 til qn) qx[\"a\"] append= i",
            check: "[len(qx[\"a\"]), sum(qx[\"a\"])]", expect: |s| format!("[{},{}]", s.n, tri(s.n)),
            check_alias: "[len(qy[\"a\"]), sum(qy[\"a\"])]", expect_alias: |_| "[0,0]".into(),
            // n = the size the list grows to (it starts as the default value): keeps x = n + k comparable
            nelem: n_of, k: n_of, copied: |_| (0, 0), in_model: false },

        // ------------------------------------------------------------------ user-defined closures as the operator
        // (the closure's argument vector must be MOVED into the parameters: a parameter is then the only holder, and a
        // body that mutates its parameter in place -- `a append= b; a`, `a[b] = 1; a` -- copies nothing.  A body that
        // is a plain expression on the parameter, `\\a, b -> a append b`, reads the variable `a` while it stays
        // alive and therefore copies on every call: quadratic by construction, measured as information only)
        Family { name: "uc_push_body", kind: Kind::List, setup: "push2 := \\a, b -> (a append= b; a); qx := [0] ** qn",
            work: "for (i <- 0 til qn) qx push2= i",
            check: ls, expect: |s| format!("[{},{}]", 2 * s.n, tri(s.n)), check_alias: la, expect_alias: orig_list,
            nelem: n_of, k: n_of, copied: flat, in_model: false },
        Family { name: "uc_concat", kind: Kind::List, setup: "cat2 := \\a, b -> (a ++= [b]; a); qx := [0] ** qn",
            work: "for (i <- 0 til qn) qx cat2= i",
            check: ls, expect: |s| format!("[{},{}]", 2 * s.n, tri(s.n)), check_alias: la, expect_alias: orig_list,
            nelem: n_of, k: n_of, copied: flat, in_model: false },
        Family { name: "uc_pop", kind: Kind::List, setup: "popa := \\a -> (pop a; a); qx := [0] ** qn",
            work: "for (i <- 0 til qn) qx .= popa",
            check: ls, expect: |_| "[0,0]".into(), check_alias: la, expect_alias: orig_list,
            nelem: n_of, k: n_of, copied: flat, in_model: false },
        Family { name: "uc_addkey", kind: Kind::Dict,
            setup: "addk := \\d, k -> (d |.= k; d); qx := {}; for (i <- 0 til qn) qx[i] = i",
            work: "for (i <- qn til 2 * qn) qx addk= i",
            check: dk, expect: |s| format!("[{},{}]", 2 * s.n, tri(2 * s.n)), check_alias: dka, expect_alias: orig_dict,
            nelem: n_of, k: n_of, copied: flat, in_model: false },
        Family { name: "uc_rows", kind: Kind::List,
            setup: "push2 := \\a, b -> (a append= b; a); qx := []; for (i <- 0 til qr) qx append= ([0] ** qr)",
            work: "for (i <- 0 til qr) for (j <- 0 til qr) qx[i] push2= j",
            check: rows, expect: |s| format!("[{},{},{}]", s.r, 2 * s.r * s.r, s.r * tri(s.r)), check_alias: rowsa, expect_alias: orig_rows,
            nelem: rr_plus_r, k: rr, copied: |s| (0, s.r * s.r + s.r), in_model: false },
        Family { name: "uc_bump", kind: Kind::List, setup: "bump := \\a -> (a[0] += 1; a); qx := [0] ** qn",
            work: "for (i <- 0 til qn) qx .= bump",
            check: ls, expect: |s| format!("[{},{}]", s.n, s.n), check_alias: la, expect_alias: orig_list,
            nelem: n_of, k: n_of, copied: flat, in_model: false },
        Family { name: "uc_bump2", kind: Kind::List, setup: "bump2 := \\a, b -> (a[b] += 1; a); qx := [0] ** qn",
            work: "for (i <- 0 til qn) qx bump2= i",
            check: ls, expect: |s| format!("[{},{}]", s.n, s.n), check_alias: la, expect_alias: orig_list,
            nelem: n_of, k: n_of, copied: flat, in_model: false },
        Family { name: "uc_setidx", kind: Kind::List, setup: "seti := \\a, b -> (a[b] = 1; a); qx := [0] ** qn",
            work: "for (i <- 0 til qn) qx seti= i",
            check: ls, expect: |s| format!("[{},{}]", s.n, s.n), check_alias: la, expect_alias: orig_list,
            nelem: n_of, k: n_of, copied: flat, in_model: false },
        Family { name: "uc_note", kind: Kind::Dict,
            setup: "note := \\d, k -> (d[k] = 1; d); qx := {}; for (i <- 0 til qn) qx[i] = i",
            work: "for (i <- 0 til qn) qx note= i",
            check: dv, expect: |s| format!("[{},{}]", s.n, s.n), check_alias: dva, expect_alias: orig_dict,
            nelem: n_of, k: n_of, copied: flat, in_model: false },
        Family { name: "uc_note_new", kind: Kind::Dict,
            setup: "note := \\d, k -> (d[k] = 1; d); qx := {}; for (i <- 0 til qn) qx[i] = i",
            work: "for (i <- qn til 2 * qn) qx note= i",
            check: dv, expect: |s| format!("[{},{}]", 2 * s.n, tri(s.n) + s.n), check_alias: dva, expect_alias: orig_dict,
            nelem: n_of, k: n_of, copied: flat, in_model: false },
        Family { name: "uc_dict_list", kind: Kind::List, setup: "push2 := \\a, b -> (a append= b; a); qx := {\"a\": [0] ** qn}",
            work: "for (i <- 0 til qn) qx[\"a\"] push2= i",
            check: "[len(qx[\"a\"]), sum(qx[\"a\"])]", expect: |s| format!("[{},{}]", 2 * s.n, tri(s.n)),
            check_alias: "[len(qy[\"a\"]), sum(qy[\"a\"])]", expect_alias: orig_list,
            nelem: n_of, k: n_of, copied: flat, in_model: false },
        Family { name: "uc_struct_push", kind: Kind::List,
            setup: "push2 := \\a, b -> (a append= b; a); struct Foo(fa, fb); qx := Foo([0] ** qn, 7)",
            work: "for (i <- 0 til qn) qx[fa] push2= i",
            check: st, expect: |s| format!("[{},{},7]", 2 * s.n, tri(s.n)), check_alias: sta, expect_alias: orig_struct,
            nelem: n_of, k: n_of, copied: flat, in_model: false },
        Family { name: "uc_struct_seti", kind: Kind::List,
            setup: "seti := \\a, b -> (a[b] = 1; a); struct Foo(fa, fb); qx := Foo([0] ** qn, 7)",
            work: "for (i <- 0 til qn) qx[fa] seti= i",
            check: st, expect: |s| format!("[{},{},7]", s.n, s.n), check_alias: sta, expect_alias: orig_struct,
            nelem: n_of, k: n_of, copied: flat, in_model: false },
        Family { name: "uc_vec", kind: Kind::Vector, setup: "push2 := \\a, b -> (a append= b; a); qx := vector([0] ** qn)",
            work: "for (i <- 0 til qn) qx push2= 1",
            check: ls, expect: |s| format!("[{},{}]", 2 * s.n, s.n), check_alias: la, expect_alias: orig_list,
            nelem: n_of, k: n_of, copied: flat, in_model: false },
        Family { name: "uc_bytes", kind: Kind::Bytes, setup: "push2 := \\a, b -> (a append= b; a); qx := bytes([0] ** qn)",
            work: "for (i <- 0 til qn) qx push2= 1",
            check: ls, expect: |s| format!("[{},{}]", 2 * s.n, s.n), check_alias: la, expect_alias: orig_list,
            nelem: n_of, k: n_of, copied: flat, in_model: false },
        // ------------------------------------------------------------------ push/pop pairs at a capacity boundary
        // n = 2^m exactly (these families ignore the tier's n0: quick 2048, thorough 16384); k = n pairs = 2n
        // statements; at most one amortised growth realloc per workload, never one per pair
        Family { name: "pp_pow2_built", kind: Kind::List, setup: PP_BUILT, work: "for (i <- 0 til qn) (qx append= i; pop qx)",
            check: ls, expect: |s| format!("[{},{}]", s.n, tri(s.n)), check_alias: la, expect_alias: |s| format!("[{},{}]", s.n, tri(s.n)),
            nelem: n_of, k: |s| 2 * s.n, copied: flat, in_model: true },
        Family { name: "pp_pow2_popfirst", kind: Kind::List, setup: PP_BUILT, work: "for (i <- 0 til qn) (pop qx; qx append= i)",
            check: "[len(qx), sum(qx[:-1])]", expect: |s| format!("[{},{}]", s.n, tri(s.n - 1)),
            check_alias: la, expect_alias: |s| format!("[{},{}]", s.n, tri(s.n)),
            nelem: n_of, k: |s| 2 * s.n, copied: flat, in_model: true },
        Family { name: "pp_cow", kind: Kind::List, setup: "qs := [0] ** qn; qz := qs; qx := qs; qx[0] = 1",
            work: "for (i <- 0 til qn) (qx append= i; pop qx)",
            check: "[len(qx), sum(qx), len(qz), sum(qz)]", expect: |s| format!("[{},1,{},0]", s.n, s.n),
            check_alias: la, expect_alias: |s| format!("[{},1]", s.n),
            // the copy-on-write copy made by the setup is part of the model's history
            nelem: n_of, k: |s| 2 * s.n, copied: |s| (s.n, 2 * s.n), in_model: true },
        Family { name: "pp_slice", kind: Kind::List, setup: "qb := [0] ** (2 * qn); qx := qb[:qn]",
            work: "for (i <- 0 til qn) (qx append= i; pop qx)",
            check: ls, expect: |s| format!("[{},0]", s.n), check_alias: la, expect_alias: orig_list,
            nelem: n_of, k: |s| 2 * s.n, copied: flat, in_model: false },
        Family { name: "pp_grown", kind: Kind::List,
            setup: "qx := []; for (i <- 0 til 3 * qn // 2) qx append= i; for (i <- 0 til qn // 2) pop qx",
            work: "for (i <- 0 til qn) (qx append= i; pop qx)",
            check: ls, expect: |s| format!("[{},{}]", s.n, tri(s.n)), check_alias: la, expect_alias: |s| format!("[{},{}]", s.n, tri(s.n)),
            nelem: n_of, k: |s| 2 * s.n, copied: flat, in_model: true },
        Family { name: "pp_half_push", kind: Kind::List, setup: PP_HALF, work: "for (i <- 0 til qn) (qx append= i; pop qx)",
            check: ls, expect: |s| format!("[{},{}]", s.n, tri(s.n)), check_alias: la, expect_alias: |s| format!("[{},{}]", s.n, tri(s.n)),
            nelem: n_of, k: |s| 2 * s.n, copied: flat, in_model: true },
        Family { name: "pp_half_pop", kind: Kind::List, setup: PP_HALF, work: "for (i <- 0 til qn) (pop qx; qx append= i)",
            check: "[len(qx), sum(qx[:-1])]", expect: |s| format!("[{},{}]", s.n, tri(s.n - 1)),
            check_alias: la, expect_alias: |s| format!("[{},{}]", s.n, tri(s.n)),
            nelem: n_of, k: |s| 2 * s.n, copied: flat, in_model: true },
        Family { name: "pp_rows", kind: Kind::List, setup: "qx := [[], []]; for (i <- 0 til qn) qx[1] append= i",
            work: "for (i <- 0 til qn) (qx[1] append= i; pop qx[1])",
            check: "[len(qx[1]), sum(qx[1]), len(qx[0])]", expect: |s| format!("[{},{},0]", s.n, tri(s.n)),
            check_alias: "[len(qy[1]), sum(qy[1])]", expect_alias: |s| format!("[{},{}]", s.n, tri(s.n)),
            nelem: |s| s.n + 2, k: |s| 2 * s.n, copied: |s| (0, s.n + 2), in_model: true },
        Family { name: "pp_struct", kind: Kind::List,
            setup: "struct Foo(fa, fb); qx := Foo([], 7); for (i <- 0 til qn) qx[fa] append= i",
            work: "for (i <- 0 til qn) (qx[fa] append= i; pop qx[fa])",
            check: st, expect: |s| format!("[{},{},7]", s.n, tri(s.n)), check_alias: sta, expect_alias: |s| format!("[{},{},7]", s.n, tri(s.n)),
            nelem: n_of, k: |s| 2 * s.n, copied: flat, in_model: false },

        // ------------------------------------------------------------------ pop / remove / consume through DEFAULT dicts
        // (the walker behind pop/remove/consume, modify_existing_index, must recurse into the dict entry in place,
        // also when the dict has a default value), with plain-dict, struct-field and nested-list counterparts
        Family { name: "dd_pop", kind: Kind::List, setup: DD_SETUP, work: "for (i <- 0 til qn) pop qx[7]",
            check: "[len(qx[7]), len(qx)]", expect: |_| "[0,1]".into(),
            check_alias: "[len(qy[7]), sum(qy[7])]", expect_alias: |s| format!("[{},{}]", s.n, tri(s.n)),
            nelem: n_of, k: n_of, copied: flat, in_model: false },
        Family { name: "dd_remove", kind: Kind::List, setup: DD_SETUP, work: "for (i <- 0 til qn) remove qx[7][-1]",
            check: "[len(qx[7]), len(qx)]", expect: |_| "[0,1]".into(),
            check_alias: "[len(qy[7]), sum(qy[7])]", expect_alias: |s| format!("[{},{}]", s.n, tri(s.n)),
            nelem: n_of, k: n_of, copied: flat, in_model: false },
        Family { name: "dd_consume", kind: Kind::List, setup: "qx := {:[]}; for (i <- 0 til qn) qx[7] append= [i]",
            work: "for (i <- 0 til qn) consume qx[7][i]",
            check: "[len(qx[7]), len(qx[7] filter (== null))]", expect: |s| format!("[{},{}]", s.n, s.n),
            check_alias: "[len(qy[7]), sum(qy[7] map sum)]", expect_alias: |s| format!("[{},{}]", s.n, tri(s.n)),
            nelem: n_of, k: n_of, copied: flat, in_model: false },
        Family { name: "dd_pop_inner", kind: Kind::List, setup: "qx := {:[]}; for (i <- 0 til qn) qx[7] append= [i, i]",
            work: "for (i <- 0 til qn) pop qx[7][i]",
            check: "[len(qx[7]), sum(qx[7] map len)]", expect: |s| format!("[{},{}]", s.n, s.n),
            check_alias: "[len(qy[7]), sum(qy[7] map len)]", expect_alias: |s| format!("[{},{}]", s.n, 2 * s.n),
            // aliased: the long row once, then every two-element inner list once
            nelem: |s| 3 * s.n, k: n_of, copied: |s| (0, 3 * s.n), in_model: false },
        Family { name: "dd_concat", kind: Kind::List, setup: DD_SETUP, work: "for (i <- 0 til qn) qx[7] ++= [i]",
            check: "[len(qx[7]), sum(qx[7])]", expect: |s| format!("[{},{}]", 2 * s.n, 2 * tri(s.n)),
            check_alias: "[len(qy[7]), sum(qy[7])]", expect_alias: |s| format!("[{},{}]", s.n, tri(s.n)),
            nelem: n_of, k: n_of, copied: flat, in_model: false },
        Family { name: "dd_nested", kind: Kind::List,
            setup: "qx := {:{:[]}}; qx[1] = {:[]}; for (i <- 0 til qn) qx[1][2] append= i",
            work: "for (i <- 0 til qn) pop qx[1][2]",
            check: "[len(qx[1][2]), len(qx)]", expect: |_| "[0,1]".into(),
            check_alias: "[len(qy[1][2]), sum(qy[1][2])]", expect_alias: |s| format!("[{},{}]", s.n, tri(s.n)),
            nelem: n_of, k: n_of, copied: flat, in_model: false },
        Family { name: "dd_struct_pop", kind: Kind::List, setup: DD_STRUCT_SETUP, work: "for (i <- 0 til qn) pop qx[fa][7]",
            check: "[len(qx[fa][7]), qx[fb]]", expect: |_| "[0,7]".into(),
            check_alias: "[len(qy[fa][7]), sum(qy[fa][7])]", expect_alias: |s| format!("[{},{}]", s.n, tri(s.n)),
            nelem: n_of, k: n_of, copied: flat, in_model: false },
        Family { name: "dd_struct_remove", kind: Kind::List, setup: DD_STRUCT_SETUP, work: "for (i <- 0 til qn) remove qx[fa][7][-1]",
            check: "[len(qx[fa][7]), qx[fb]]", expect: |_| "[0,7]".into(),
            check_alias: "[len(qy[fa][7]), sum(qy[fa][7])]", expect_alias: |s| format!("[{},{}]", s.n, tri(s.n)),
            nelem: n_of, k: n_of, copied: flat, in_model: false },
        Family { name: "dd_list", kind: Kind::List, setup: "qx := [{:[]}]; for (i <- 0 til qn) qx[0][7] append= i",
            work: "for (i <- 0 til qn) pop qx[0][7]",
            check: "[len(qx[0][7]), len(qx)]", expect: |_| "[0,1]".into(),
            check_alias: "[len(qy[0][7]), sum(qy[0][7])]", expect_alias: |s| format!("[{},{}]", s.n, tri(s.n)),
            nelem: n_of, k: n_of, copied: flat, in_model: false },
        Family { name: "pd_pop", kind: Kind::List, setup: PD_SETUP, work: "for (i <- 0 til qn) pop qx[7]",
            check: "[len(qx[7]), len(qx)]", expect: |_| "[0,1]".into(),
            check_alias: "[len(qy[7]), sum(qy[7])]", expect_alias: |s| format!("[{},{}]", s.n, tri(s.n)),
            nelem: n_of, k: n_of, copied: flat, in_model: false },
        Family { name: "pd_remove", kind: Kind::List, setup: PD_SETUP, work: "for (i <- 0 til qn) remove qx[7][-1]",
            check: "[len(qx[7]), len(qx)]", expect: |_| "[0,1]".into(),
            check_alias: "[len(qy[7]), sum(qy[7])]", expect_alias: |s| format!("[{},{}]", s.n, tri(s.n)),
            nelem: n_of, k: n_of, copied: flat, in_model: false },
        Family { name: "pd_consume", kind: Kind::List, setup: "qx := {}; qx[7] = []; for (i <- 0 til qn) qx[7] append= [i]",
            work: "for (i <- 0 til qn) consume qx[7][i]",
            check: "[len(qx[7]), len(qx[7] filter (== null))]", expect: |s| format!("[{},{}]", s.n, s.n),
            check_alias: "[len(qy[7]), sum(qy[7] map sum)]", expect_alias: |s| format!("[{},{}]", s.n, tri(s.n)),
            nelem: n_of, k: n_of, copied: flat, in_model: false },
        Family { name: "struct_pop", kind: Kind::List, setup: STRUCT_SETUP, work: "for (i <- 0 til qn) pop qx[fa]",
            check: st, expect: |_| "[0,0,7]".into(), check_alias: sta, expect_alias: orig_struct,
            nelem: n_of, k: n_of, copied: flat, in_model: false },
        Family { name: "struct_remove", kind: Kind::List, setup: STRUCT_SETUP, work: "for (i <- 0 til qn) remove qx[fa][-1]",
            check: st, expect: |_| "[0,0,7]".into(), check_alias: sta, expect_alias: orig_struct,
            nelem: n_of, k: n_of, copied: flat, in_model: false },
        Family { name: "nl_pop", kind: Kind::List, setup: "qx := [[], [0] ** qn]", work: "for (i <- 0 til qn) pop qx[1]",
            check: "[len(qx[1]), len(qx)]", expect: |_| "[0,2]".into(),
            check_alias: "[len(qy[1]), sum(qy[1])]", expect_alias: orig_list,
            nelem: n_of, k: n_of, copied: flat, in_model: false },
        Family { name: "nl_remove", kind: Kind::List, setup: "qx := [[], [0] ** qn]", work: "for (i <- 0 til qn) remove qx[1][-1]",
            check: "[len(qx[1]), len(qx)]", expect: |_| "[0,2]".into(),
            check_alias: "[len(qy[1]), sum(qy[1])]", expect_alias: orig_list,
            nelem: n_of, k: n_of, copied: flat, in_model: false },
        Family { name: "nl_consume", kind: Kind::List, setup: "qx := []; for (i <- 0 til qn) qx append= [i]",
            work: "for (i <- 0 til qn) consume qx[i]",
            check: "[len(qx), len(qx filter (== null))]", expect: |s| format!("[{},{}]", s.n, s.n),
            check_alias: "[len(qy), sum(qy map sum)]", expect_alias: |s| format!("[{},{}]", s.n, tri(s.n)),
            nelem: n_of, k: n_of, copied: flat, in_model: false },
        // ------------------------------------------------------------------ container-merging builtins as op-assign operators
        // (`qx op= small`, k = n times, on a large left operand: the builtin must move values out of the entries it
        // updates, not clone them)
        Family { name: "mg_group", kind: Kind::List, setup: "qx := {7: [0] ** qn}", work: "for (i <- 0 til qn) qx ||++= {7: [i]}",
            check: "[len(qx), len(qx[7]), sum(qx[7])]", expect: |s| format!("[1,{},{}]", 2 * s.n, tri(s.n)),
            check_alias: "[len(qy[7]), sum(qy[7])]", expect_alias: orig_list,
            nelem: n_of, k: n_of, copied: flat, in_model: false },
        Family { name: "mg_group3", kind: Kind::List, setup: "qx := {}", work: "for (i <- 0 til qn) qx ||++= {i % 3: [i, i]}",
            check: "[len(qx), sum(values(qx) map len)]", expect: |s| format!("[3,{}]", 2 * s.n),
            check_alias: "[len(qy)]", expect_alias: |_| "[0]".into(),
            nelem: |s| 2 * s.n, k: n_of, copied: |_| (0, 0), in_model: false },
        Family { name: "mg_group_nested", kind: Kind::List, setup: "qx := [{}, {7: [0] ** qn}]",
            work: "for (i <- 0 til qn) qx[1] ||++= {7: [i]}",
            check: "[len(qx[1]), len(qx[1][7]), sum(qx[1][7])]", expect: |s| format!("[1,{},{}]", 2 * s.n, tri(s.n)),
            check_alias: "[len(qy[1][7]), sum(qy[1][7])]", expect_alias: orig_list,
            nelem: n_of, k: n_of, copied: flat, in_model: false },
        Family { name: "mg_group_struct", kind: Kind::List, setup: "struct Foo(fa, fb); qx := Foo({7: [0] ** qn}, 7)",
            work: "for (i <- 0 til qn) qx[fa] ||++= {7: [i]}",
            check: "[len(qx[fa][7]), sum(qx[fa][7]), qx[fb]]", expect: |s| format!("[{},{},7]", 2 * s.n, tri(s.n)),
            check_alias: "[len(qy[fa][7]), sum(qy[fa][7]), qy[fb]]", expect_alias: orig_struct,
            nelem: n_of, k: n_of, copied: flat, in_model: false },
        Family { name: "mg_group_dk", kind: Kind::List, setup: "qx := {\"a\": {7: [0] ** qn}}",
            work: "for (i <- 0 til qn) qx[\"a\"] ||++= {7: [i]}",
            check: "[len(qx[\"a\"][7]), sum(qx[\"a\"][7])]", expect: |s| format!("[{},{}]", 2 * s.n, tri(s.n)),
            check_alias: "[len(qy[\"a\"][7]), sum(qy[\"a\"][7])]", expect_alias: orig_list,
            nelem: n_of, k: n_of, copied: flat, in_model: false },
        Family { name: "mg_count", kind: Kind::Dict, setup: DICT_SETUP, work: "for (i <- 0 til qn) qx ||+= {i: 1}",
            check: dv, expect: |s| format!("[{},{}]", s.n, tri(s.n) + s.n), check_alias: dva, expect_alias: orig_dict,
            nelem: n_of, k: n_of, copied: flat, in_model: false },
        Family { name: "mg_sub", kind: Kind::Dict, setup: DICT_SETUP, work: "for (i <- 0 til qn) qx ||-= {i: 1}",
            check: "[len(qx), sum(values(qx)) + qn]", expect: |s| format!("[{},{}]", s.n, tri(s.n)), check_alias: dva, expect_alias: orig_dict,
            nelem: n_of, k: n_of, copied: flat, in_model: false },
        Family { name: "mg_overwrite", kind: Kind::List, setup: "qx := {7: [0] ** qn, 8: [0] ** qn}",
            work: "for (i <- 0 til qn) qx ||= {7: i}",
            check: "[len(qx), qx[7], len(qx[8])]", expect: |s| format!("[2,{},{}]", s.n - 1, s.n),
            check_alias: "[len(qy[7]), len(qy[8])]", expect_alias: |s| format!("[{},{}]", s.n, s.n),
            nelem: |s| 2 * s.n, k: n_of, copied: |_| (0, 0), in_model: false },
        Family { name: "mg_discard", kind: Kind::Dict, setup: DICT_SETUP, work: "for (i <- 0 til qn) qx discard= i",
            check: dk, expect: |_| "[0,0]".into(), check_alias: dka, expect_alias: orig_dict,
            nelem: n_of, k: n_of, copied: flat, in_model: false },
        Family { name: "mg_insert", kind: Kind::Dict, setup: DICT_SETUP, work: "for (i <- qn til 2 * qn) qx insert= [i, i]",
            check: dv, expect: |s| format!("[{},{}]", 2 * s.n, tri(2 * s.n)), check_alias: dva, expect_alias: orig_dict,
            nelem: n_of, k: n_of, copied: flat, in_model: false },
        Family { name: "mg_upsert_dict", kind: Kind::Dict, setup: DICT_SETUP, work: "for (i <- 0 til qn) qx |..= [i, i + 1]",
            check: dv, expect: |s| format!("[{},{}]", s.n, tri(s.n) + s.n), check_alias: dva, expect_alias: orig_dict,
            nelem: n_of, k: n_of, copied: flat, in_model: false },
        Family { name: "mg_upsert_list", kind: Kind::List, setup: LIST_SETUP, work: "for (i <- 0 til qn) qx |..= [i, 1]",
            check: ls, expect: |s| format!("[{},{}]", s.n, s.n), check_alias: la, expect_alias: orig_list,
            nelem: n_of, k: n_of, copied: flat, in_model: false },
        // O(len) TIME per statement by design (retain / sort / reverse walk the whole container) but no allocation:
        // sizes as for the control, so that the thorough tier stays short
        Family { name: "tq_minus", kind: Kind::Dict, setup: DICT_SETUP, work: "for (i <- 0 til qn) qx --= {i: 0}",
            check: dk, expect: |_| "[0,0]".into(), check_alias: dka, expect_alias: orig_dict,
            nelem: n_of, k: n_of, copied: flat, in_model: false },
        Family { name: "tq_and", kind: Kind::Dict, setup: "qx := {}; for (i <- 0 til qn) qx[i] = i; qz := {}; for (i <- 0 til qn) qz[i] = 0",
            work: "for (i <- 0 til qn) qx &&= qz",
            check: dv, expect: |s| format!("[{},{}]", s.n, tri(s.n)), check_alias: dva, expect_alias: orig_dict,
            nelem: n_of, k: n_of, copied: flat, in_model: false },
        Family { name: "tq_reverse", kind: Kind::List, setup: LIST_SETUP, work: "for (i <- 0 til qn) qx .= reverse",
            check: ls, expect: |s| format!("[{},0]", s.n), check_alias: la, expect_alias: orig_list,
            nelem: n_of, k: n_of, copied: flat, in_model: false },
        // ------------------------------------------------------------------ less common LVALUE FORMS of op-assign
        // (1) with-default target `(d[k] = default) f= v` on a plain dict, key PRESENT and holding a large collection:
        // the slot must be dropped before the operator runs, exactly as for `d[k] f= v`
        Family { name: "wd_append", kind: Kind::List, setup: WD_SETUP, work: "for (i <- 0 til qn) (qx[7] = []) append= i",
            check: "[len(qx), len(qx[7]), sum(qx[7])]", expect: |s| format!("[1,{},{}]", 2 * s.n, tri(s.n)),
            check_alias: "[len(qy[7]), sum(qy[7])]", expect_alias: orig_list,
            nelem: n_of, k: n_of, copied: flat, in_model: false },
        Family { name: "wd_concat", kind: Kind::List, setup: WD_SETUP, work: "for (i <- 0 til qn) (qx[7] = []) ++= [i]",
            check: "[len(qx), len(qx[7]), sum(qx[7])]", expect: |s| format!("[1,{},{}]", 2 * s.n, tri(s.n)),
            check_alias: "[len(qy[7]), sum(qy[7])]", expect_alias: orig_list,
            nelem: n_of, k: n_of, copied: flat, in_model: false },
        Family { name: "wd_addkey", kind: Kind::Dict, setup: "qx := {7: {}}; for (i <- 0 til qn) qx[7][i] = i",
            work: "for (i <- qn til 2 * qn) (qx[7] = {}) |.= i",
            check: "[len(qx[7]), sum(keys(qx[7]))]", expect: |s| format!("[{},{}]", 2 * s.n, tri(2 * s.n)),
            check_alias: "[len(qy[7]), sum(keys(qy[7]))]", expect_alias: orig_dict,
            nelem: n_of, k: n_of, copied: flat, in_model: false },
        Family { name: "wd_int", kind: Kind::Dict, setup: DICT_SETUP, work: "for (i <- 0 til qn) (qx[i] = 0) += 1",
            check: dv, expect: |s| format!("[{},{}]", s.n, tri(s.n) + s.n), check_alias: dva, expect_alias: orig_dict,
            nelem: n_of, k: n_of, copied: flat, in_model: false },
        Family { name: "uc_wd_push", kind: Kind::List, setup: "push2 := \\a, b -> (a append= b; a); qx := {7: [0] ** qn}",
            work: "for (i <- 0 til qn) (qx[7] = []) push2= i",
            check: "[len(qx), len(qx[7]), sum(qx[7])]", expect: |s| format!("[1,{},{}]", 2 * s.n, tri(s.n)),
            check_alias: "[len(qy[7]), sum(qy[7])]", expect_alias: orig_list,
            nelem: n_of, k: n_of, copied: flat, in_model: false },
        Family { name: "wd_nested_list", kind: Kind::List, setup: "qx := [{7: [0] ** qn}]", work: "for (i <- 0 til qn) (qx[0][7] = []) ++= [i]",
            check: "[len(qx[0][7]), sum(qx[0][7])]", expect: |s| format!("[{},{}]", 2 * s.n, tri(s.n)),
            check_alias: "[len(qy[0][7]), sum(qy[0][7])]", expect_alias: orig_list,
            nelem: n_of, k: n_of, copied: flat, in_model: false },
        Family { name: "wd_dk", kind: Kind::List, setup: "qx := {\"a\": {7: [0] ** qn}}", work: "for (i <- 0 til qn) (qx[\"a\"][7] = []) append= i",
            check: "[len(qx[\"a\"][7]), sum(qx[\"a\"][7])]", expect: |s| format!("[{},{}]", 2 * s.n, tri(s.n)),
            check_alias: "[len(qy[\"a\"][7]), sum(qy[\"a\"][7])]", expect_alias: orig_list,
            nelem: n_of, k: n_of, copied: flat, in_model: false },
        Family { name: "wd_struct", kind: Kind::List, setup: "struct Foo(fa, fb); qx := Foo({7: [0] ** qn}, 7)",
            work: "for (i <- 0 til qn) (qx[fa][7] = []) append= i",
            check: "[len(qx[fa][7]), sum(qx[fa][7]), qx[fb]]", expect: |s| format!("[{},{},7]", 2 * s.n, tri(s.n)),
            check_alias: "[len(qy[fa][7]), sum(qy[fa][7]), qy[fb]]", expect_alias: orig_struct,
            nelem: n_of, k: n_of, copied: flat, in_model: false },
        // the absent-key case (the reason the form exists): n new one-element rows
        Family { name: "wd_absent", kind: Kind::List, setup: "qx := {}", work: "for (i <- 0 til qn) (qx[i] = []) append= i",
            check: "[len(qx), sum(values(qx) map len)]", expect: |s| format!("[{},{}]", s.n, s.n),
            check_alias: "[len(qy)]", expect_alias: |_| "[0]".into(),
            nelem: n_of, k: n_of, copied: |_| (0, 0), in_model: false },
        // (2) `and` target ("party trick"): `(a and b) f= v` applies the operator to every target; the values read up
        // front must be MOVED into the operator, one target at a time (k counts the mutations: one per target)
        Family { name: "and_append", kind: Kind::List, setup: "qx := [0] ** qn; qb := [1] ** qn", work: "for (i <- 0 til qn) (qx and qb) append= i",
            check: "[len(qx), sum(qx), len(qb), sum(qb)]", expect: |s| format!("[{},{},{},{}]", 2 * s.n, tri(s.n), 2 * s.n, s.n + tri(s.n)),
            check_alias: la, expect_alias: orig_list,
            nelem: |s| 2 * s.n, k: |s| 2 * s.n, copied: flat, in_model: false },
        Family { name: "and3_append", kind: Kind::List, setup: "qx := [0] ** qn; qb := [1] ** qn; qc := [2] ** qn",
            work: "for (i <- 0 til qn) (qx and qb and qc) append= i",
            check: "[len(qx), sum(qx), len(qb), sum(qb), len(qc), sum(qc)]",
            expect: |s| format!("[{},{},{},{},{},{}]", 2 * s.n, tri(s.n), 2 * s.n, s.n + tri(s.n), 2 * s.n, 2 * s.n + tri(s.n)),
            check_alias: la, expect_alias: orig_list,
            nelem: |s| 3 * s.n, k: |s| 3 * s.n, copied: flat, in_model: false },
        Family { name: "and_rows_concat", kind: Kind::List, setup: "qx := [[0] ** qn, [1] ** qn]", work: "for (i <- 0 til qn) (qx[0] and qx[1]) ++= [i]",
            check: "[len(qx[0]), sum(qx[0]), len(qx[1]), sum(qx[1])]", expect: |s| format!("[{},{},{},{}]", 2 * s.n, tri(s.n), 2 * s.n, s.n + tri(s.n)),
            check_alias: "[len(qy[0]), sum(qy[0]), len(qy[1]), sum(qy[1])]", expect_alias: |s| format!("[{},0,{},{}]", s.n, s.n, s.n),
            nelem: |s| 2 * s.n, k: |s| 2 * s.n, copied: |s| (0, 2 * s.n + 2), in_model: false },
        Family { name: "and_dict_addkey", kind: Kind::Dict,
            setup: "qx := {1: {}, 2: {}}; for (i <- 0 til qn) (qx[1][i] = i; qx[2][i] = i)",
            work: "for (i <- qn til 2 * qn) (qx[1] and qx[2]) |.= i",
            check: "[len(qx[1]), len(qx[2]), sum(keys(qx[1]))]", expect: |s| format!("[{},{},{}]", 2 * s.n, 2 * s.n, tri(2 * s.n)),
            check_alias: "[len(qy[1]), len(qy[2])]", expect_alias: |s| format!("[{},{}]", s.n, s.n),
            nelem: |s| 2 * s.n, k: |s| 2 * s.n, copied: |s| (0, 2 * s.n), in_model: false },
        Family { name: "and_int", kind: Kind::List, setup: "qx := 0; qb := 10", work: "for (i <- 0 til qn) (qx and qb) += 1",
            check: "[qx, qb]", expect: |s| format!("[{},{}]", s.n, s.n + 10), check_alias: "[qy]", expect_alias: |_| "[0]".into(),
            nelem: n_of, k: |s| 2 * s.n, copied: |_| (0, 0), in_model: false },
        // (3) unpacking target `(a, b) f= v`: the operator is applied to the LIST [a, b] (both variables are dropped first,
        // so a draining `map` hands each collection to the closure as its only holder); the `every` forms are observations
        Family { name: "uc_unp_map", kind: Kind::List, setup: "push1 := \\a -> (a append= 1; a); qx := [0] ** qn; qb := [1] ** qn",
            work: "for (i <- 0 til qn) (qx, qb) map= push1",
            check: "[len(qx), sum(qx), len(qb), sum(qb)]", expect: |s| format!("[{},{},{},{}]", 2 * s.n, s.n, 2 * s.n, 2 * s.n),
            check_alias: la, expect_alias: orig_list,
            nelem: |s| 2 * s.n, k: |s| 2 * s.n, copied: flat, in_model: false },
        // ------------------------------------------------------------------ `++=` on FULL flat buffers (vectors, bytes)
        // n = 2^m exactly (vectors: as pp_*; bytes: 4x that, so that n bytes per statement are visible next to the
        // ~1 kB of loop overhead); the buffer starts with len == capacity (built by 2^m appends, at exact size, or as a
        // copy-on-write copy): growth must stay amortised (one doubling), never one exact-size realloc per statement
        Family { name: "vpp_pow2", kind: Kind::Vector, setup: "qx := V(); for (i <- 0 til qn) qx append= i", work: "for (i <- 0 til qn) qx ++= V(i)",
            check: ls, expect: |s| format!("[{},{}]", 2 * s.n, 2 * tri(s.n)), check_alias: la, expect_alias: |s| format!("[{},{}]", s.n, tri(s.n)),
            nelem: n_of, k: n_of, copied: flat, in_model: false },
        Family { name: "vpp_exact", kind: Kind::Vector, setup: "qx := vector([0] ** qn)", work: "for (i <- 0 til qn) qx ++= V(i)",
            check: ls, expect: |s| format!("[{},{}]", 2 * s.n, tri(s.n)), check_alias: la, expect_alias: orig_list,
            nelem: n_of, k: n_of, copied: flat, in_model: false },
        Family { name: "vpp_cow", kind: Kind::Vector, setup: "qs := vector([0] ** qn); qz := qs; qx := qs; qx[0] = 1", work: "for (i <- 0 til qn) qx ++= V(i)",
            check: ls, expect: |s| format!("[{},{}]", 2 * s.n, tri(s.n) + 1), check_alias: la, expect_alias: |s| format!("[{},1]", s.n),
            nelem: n_of, k: n_of, copied: flat, in_model: false },
        Family { name: "vpp_dict", kind: Kind::Vector, setup: "qx := {7: vector([0] ** qn)}", work: "for (i <- 0 til qn) qx[7] ++= V(i)",
            check: "[len(qx[7]), sum(qx[7])]", expect: |s| format!("[{},{}]", 2 * s.n, tri(s.n)),
            check_alias: "[len(qy[7]), sum(qy[7])]", expect_alias: orig_list,
            nelem: n_of, k: n_of, copied: flat, in_model: false },
        Family { name: "vpp_struct", kind: Kind::Vector, setup: "struct Foo(fa, fb); qx := Foo(vector([0] ** qn), 7)", work: "for (i <- 0 til qn) qx[fa] ++= V(i)",
            check: st, expect: |s| format!("[{},{},7]", 2 * s.n, tri(s.n)), check_alias: sta, expect_alias: orig_struct,
            nelem: n_of, k: n_of, copied: flat, in_model: false },
        Family { name: "bpp_pow2", kind: Kind::Bytes, setup: "qx := B(); for (i <- 0 til qn) qx append= i % 256", work: "for (i <- 0 til qn) qx ++= B(i % 256)",
            check: ls, expect: |s| format!("[{},{}]", 2 * s.n, 2 * (s.n / 256) * 32640), check_alias: la, expect_alias: |s| format!("[{},{}]", s.n, (s.n / 256) * 32640),
            nelem: n_of, k: n_of, copied: flat, in_model: false },
        Family { name: "bpp_exact", kind: Kind::Bytes, setup: "qx := bytes([0] ** qn)", work: "for (i <- 0 til qn) qx ++= B(i % 256)",
            check: ls, expect: |s| format!("[{},{}]", 2 * s.n, (s.n / 256) * 32640), check_alias: la, expect_alias: orig_list,
            nelem: n_of, k: n_of, copied: flat, in_model: false },
        Family { name: "bpp_cow", kind: Kind::Bytes, setup: "qs := bytes([0] ** qn); qz := qs; qx := qs; qx[0] = 1", work: "for (i <- 0 til qn) qx ++= B(i % 256)",
            check: ls, expect: |s| format!("[{},{}]", 2 * s.n, (s.n / 256) * 32640 + 1), check_alias: la, expect_alias: |s| format!("[{},1]", s.n),
            nelem: n_of, k: n_of, copied: flat, in_model: false },
        Family { name: "bpp_row", kind: Kind::Bytes, setup: "qx := [0, bytes([0] ** qn)]", work: "for (i <- 0 til qn) qx[1] ++= B(i % 256)",
            check: "[len(qx[1]), sum(qx[1])]", expect: |s| format!("[{},{}]", 2 * s.n, (s.n / 256) * 32640),
            check_alias: "[len(qy[1]), sum(qy[1])]", expect_alias: orig_list,
            nelem: n_of, k: n_of, copied: flat, in_model: false },
        Family { name: "bpp_struct", kind: Kind::Bytes, setup: "struct Foo(fa, fb); qx := Foo(bytes([0] ** qn), 7)", work: "for (i <- 0 til qn) qx[fa] ++= B(i % 256)",
            check: st, expect: |s| format!("[{},{},7]", 2 * s.n, (s.n / 256) * 32640), check_alias: sta, expect_alias: orig_struct,
            nelem: n_of, k: n_of, copied: flat, in_model: false },
        // ------------------------------------------------------------------ struct fields reached by SYMBOL (`qx::fa`)
        // (every struct-field family above also gets a `sym_` twin with `qx[fa]` replaced by `qx::fa` in the workload)
        Family { name: "sym_opidx", kind: Kind::List, setup: STRUCT_SETUP, work: "for (i <- 0 til qn) qx::fa[i] += 1",
            check: st, expect: |s| format!("[{},{},7]", s.n, s.n), check_alias: sta, expect_alias: orig_struct,
            nelem: n_of, k: n_of, copied: flat, in_model: false },
        Family { name: "sym_rows_set", kind: Kind::List, setup: "struct Foo(fa, fb); qx := Foo([], 7); for (i <- 0 til qr) qx[fa] append= ([0] ** qr)",
            work: "for (i <- 0 til qr) for (j <- 0 til qr) qx::fa[i][j] = 1",
            check: "[len(qx[fa]), sum(qx[fa] map sum), qx[fb]]", expect: |s| format!("[{},{},7]", s.r, s.r * s.r),
            check_alias: "[len(qy[fa]), sum(qy[fa] map sum)]", expect_alias: |s| format!("[{},0]", s.r),
            nelem: rr_plus_r, k: rr, copied: |s| (0, s.r * s.r + s.r), in_model: false },
        Family { name: "sym_dict_insert", kind: Kind::Dict, setup: "struct Foo(fa, fb); qx := Foo({}, 7)", work: "for (i <- 0 til qn) qx::fa[i] = i",
            check: "[len(qx[fa]), sum(values(qx[fa])), qx[fb]]", expect: |s| format!("[{},{},7]", s.n, tri(s.n)),
            check_alias: "[len(qy[fa])]", expect_alias: |_| "[0]".into(),
            nelem: n_of, k: n_of, copied: |_| (0, 0), in_model: false },
        Family { name: "sym_in_list", kind: Kind::List, setup: "struct Foo(fa, fb); qx := [Foo([0] ** qn, 7)]", work: "for (i <- 0 til qn) qx[0]::fa[i] = i",
            check: "[len(qx[0][fa]), sum(qx[0][fa])]", expect: |s| format!("[{},{}]", s.n, tri(s.n)),
            check_alias: "[len(qy[0][fa]), sum(qy[0][fa])]", expect_alias: orig_list,
            nelem: n_of, k: n_of, copied: flat, in_model: false },
        Family { name: "sym_in_dict", kind: Kind::List, setup: "struct Foo(fa, fb); qx := {\"a\": Foo([0] ** qn, 7)}", work: "for (i <- 0 til qn) qx[\"a\"]::fa[i] += 1",
            check: "[len(qx[\"a\"][fa]), sum(qx[\"a\"][fa])]", expect: |s| format!("[{},{}]", s.n, s.n),
            check_alias: "[len(qy[\"a\"][fa]), sum(qy[\"a\"][fa])]", expect_alias: orig_list,
            nelem: n_of, k: n_of, copied: flat, in_model: false },
    ]
}

/// NOT judged: workloads that are O(len) allocation per statement BY CONSTRUCTION on the unchanged tree (outside the
/// property's quantifier); measured at n = 500, 1000, 2000 and reported in rep.notes so that the difference to the
/// judged families is on record
fn observation_families() -> Vec<(Family, &'static str)> {
    vec![
        (Family { name: "obs_uc_push_expr", kind: Kind::List, setup: "push := \\a, b -> a append b; qx := [0] ** qn",
            work: "for (i <- 0 til qn) qx push= i",
            check: "[len(qx), sum(qx)]", expect: |s| format!("[{},{}]", 2 * s.n, tri(s.n)),
            check_alias: "[len(qy), sum(qy)]", expect_alias: |s| format!("[{},0]", s.n),
            nelem: n_of, k: n_of, copied: flat, in_model: false },
         "closure body is the expression `a append b`, not an in-place statement: the parameter stays alive while the \
          builtin runs on a second reference (the same as `qy = qx append i`), one copy per call by construction"),
        (Family { name: "obs_count_vec", kind: Kind::Vector, setup: "qx := {7: vector([0] ** qn)}",
            work: "for (i <- 0 til qn) qx ||+= {7: 1}",
            check: "[len(qx[7]), sum(qx[7])]", expect: |s| format!("[{},{}]", s.n, s.n * s.n),
            check_alias: "[len(qy[7]), sum(qy[7])]", expect_alias: |s| format!("[{},0]", s.n),
            nelem: n_of, k: n_of, copied: flat, in_model: false },
         "`||+` on a vector value is vectorised arithmetic: every statement computes len new elements and collects them \
          into a new vector, quadratic by design"),
        (Family { name: "obs_sort", kind: Kind::List, setup: "qx := [0] ** qn", work: "for (i <- 0 til qn) qx .= sort",
            check: "[len(qx), sum(qx)]", expect: |s| format!("[{},0]", s.n),
            check_alias: "[len(qy), sum(qy)]", expect_alias: |s| format!("[{},0]", s.n),
            nelem: n_of, k: n_of, copied: flat, in_model: false },
         "`sort` rebuilds the whole list (one buffer of len elements per call), quadratic by design; `reverse`, `--`, \
          `&&` walk the whole container but allocate nothing and are judged (tq_*)"),
        (Family { name: "obs_every_var", kind: Kind::List, setup: "qx := [0] ** qn", work: "for (i <- 0 til qn) every qx append= i",
            check: "[len(qx), sum(qx)]", expect: |s| format!("[{},{}]", 2 * s.n, tri(s.n)),
            check_alias: "[len(qy), sum(qy)]", expect_alias: |s| format!("[{},0]", s.n),
            nelem: n_of, k: n_of, copied: flat, in_model: false },
         "`every` op-assign is copy-on-write by construction on the unchanged tree: modify_every reads the variable into a local \
          clone, lets the operator run on the pieces of the clone while the variable still holds the original, and assigns \
          the clone back, so every collection the statement touches is copied once per statement"),
        (Family { name: "obs_every_unp_append", kind: Kind::List, setup: "qx := [0] ** qn; qb := [1] ** qn", work: "for (i <- 0 til qn) every (qx, qb) append= i",
            check: "[len(qx), sum(qx), len(qb), sum(qb)]", expect: |s| format!("[{},{},{},{}]", 2 * s.n, tri(s.n), 2 * s.n, s.n + tri(s.n)),
            check_alias: "[len(qy), sum(qy)]", expect_alias: |s| format!("[{},0]", s.n),
            nelem: |s| 2 * s.n, k: n_of, copied: flat, in_model: false },
         "`every` op-assign is copy-on-write by construction on the unchanged tree: modify_every reads the variable into a local \
          clone, lets the operator run on the pieces of the clone while the variable still holds the original, and assigns \
          the clone back, so every collection the statement touches is copied once per statement"),
        (Family { name: "obs_every_slice_append", kind: Kind::List, setup: "qx := [[0] ** qn, [1] ** qn, 5]", work: "for (i <- 0 til qn) every qx[0:2] append= i",
            check: "[len(qx[0]), sum(qx[0]), len(qx[1]), sum(qx[1]), qx[2]]", expect: |s| format!("[{},{},{},{},5]", 2 * s.n, tri(s.n), 2 * s.n, s.n + tri(s.n)),
            check_alias: "[len(qy[0]), len(qy[1])]", expect_alias: |s| format!("[{},{}]", s.n, s.n),
            nelem: |s| 2 * s.n, k: n_of, copied: |s| (0, 2 * s.n + 3), in_model: false },
         "`every` op-assign is copy-on-write by construction on the unchanged tree: modify_every reads the variable into a local \
          clone, lets the operator run on the pieces of the clone while the variable still holds the original, and assigns \
          the clone back, so every collection the statement touches is copied once per statement"),
        (Family { name: "obs_every_slice_concat", kind: Kind::List, setup: "qx := [[0] ** qn, [1] ** qn, 5]", work: "for (i <- 0 til qn) every qx[0:2] ++= [i]",
            check: "[len(qx[0]), sum(qx[0]), len(qx[1]), sum(qx[1]), qx[2]]", expect: |s| format!("[{},{},{},{},5]", 2 * s.n, tri(s.n), 2 * s.n, s.n + tri(s.n)),
            check_alias: "[len(qy[0]), len(qy[1])]", expect_alias: |s| format!("[{},{}]", s.n, s.n),
            nelem: |s| 2 * s.n, k: n_of, copied: |s| (0, 2 * s.n + 3), in_model: false },
         "`every` op-assign is copy-on-write by construction on the unchanged tree: modify_every reads the variable into a local \
          clone, lets the operator run on the pieces of the clone while the variable still holds the original, and assigns \
          the clone back, so every collection the statement touches is copied once per statement"),
        (Family { name: "obs_every_rows_append", kind: Kind::List, setup: ROWS_SETUP, work: "for (i <- 0 til qr) every qx[:] append= i",
            check: "[len(qx), sum(qx map len), sum(qx map sum)]", expect: |s| format!("[{},{},{}]", s.r, 2 * s.r * s.r, s.r * tri(s.r)), check_alias: "[len(qy), sum(qy map len), sum(qy map sum)]", expect_alias: |s| format!("[{},{},0]", s.r, s.r * s.r),
            nelem: rr_plus_r, k: rr, copied: |s| (0, s.r * s.r + s.r), in_model: false },
         "`every` op-assign is copy-on-write by construction on the unchanged tree: modify_every reads the variable into a local \
          clone, lets the operator run on the pieces of the clone while the variable still holds the original, and assigns \
          the clone back, so every collection the statement touches is copied once per statement"),
    ]
}

/// the `::field` twin of a struct-field family: the workload reaches the field by symbol (`qx::fa`) instead of by
/// the field accessor (`qx[fa]`); set_index has a separate arm for it
fn sym_twin(f: &Family) -> Family {
    let mut g = *f;
    g.name = Box::leak(format!("sym_{}", f.name).into_boxed_str());
    g.work = Box::leak(f.work.replace("qx[fa]", "qx::fa").into_boxed_str());
    g
}
/// family name without the `sym_` / `@typed` decorations (sizing and bound classes go by it)
fn core_name(name: &str) -> &str {
    name.trim_start_matches("sym_").trim_end_matches("@typed")
}

/// declared type of `qx` in the `@typed` variant of a family
fn declared_type(name: &str) -> &'static str {
    match name {
        "sym_opidx" | "sym_rows_set" | "sym_dict_insert" => return "Foo",
        "sym_in_list" => return "list",
        "sym_in_dict" => return "dict",
        _ => {}
    }
    let name = name.trim_start_matches("sym_");
    match name {
        "vpp_struct" | "bpp_struct" => return "Foo",
        "bpp_row" => return "list",
        "vpp_dict" => return "dict",
        "uc_note" | "uc_note_new" | "uc_dict_list" | "uc_addkey" | "uc_wd_push" | "and_dict_addkey" => return "dict",
        "and_int" => return "int",
        "wd_nested_list" => return "list",
        "uc_struct_push" | "uc_struct_seti" | "pp_struct" | "dd_struct_pop" | "dd_struct_remove" | "mg_group_struct" | "wd_struct" => return "Foo",
        "dd_list" | "mg_group_nested" | "mg_upsert_list" | "tq_sort" | "tq_reverse" => return "list",
        "uc_vec" => return "vector",
        "uc_bytes" => return "bytes",
        _ => {}
    }
    let p = name.split('_').next().unwrap_or("");
    match p {
        "list" | "rows" | "wide" | "ld" | "uc" | "pp" | "nl" | "and" | "and3" | "every" => "list",
        "dict" | "dk" | "dld" | "defdict" | "dd" | "pd" | "mg" | "tq" | "wd" => "dict",
        "vec" | "vpp" => "vector",
        "bytes" | "bpp" => "bytes",
        "str" => "str",
        "struct" | "sd" => "Foo",
        _ => "list",
    }
}
/// the same family with the variable declared with a type annotation (`qx: list = ...`): assignments then go
/// through the type-checking arm of assign_respecting_type, which must not copy the value either
fn typed(f: &Family) -> Family {
    let mut g = *f;
    g.name = Box::leak(format!("{}@typed", f.name).into_boxed_str());
    let decl = format!("qx: {} = ", declared_type(f.name));
    assert!(f.setup.contains("qx := "));
    g.setup = Box::leak(f.setup.replacen("qx := ", &decl, 1).into_boxed_str());
    g
}

/// the genuinely quadratic control: the alias is re-taken before every statement
fn control_family() -> Family {
    Family { name: "control", kind: Kind::List, setup: LIST_SETUP, work: "for (i <- 0 til qn) (qy = qx; qx[i] = i)",
        check: "[len(qx), sum(qx)]", expect: |s| format!("[{},{}]", s.n, tri(s.n)),
        check_alias: "[len(qy), sum(qy)]", expect_alias: |s| format!("[{},{}]", s.n, tri(s.n.saturating_sub(1))),
        nelem: n_of, k: n_of, copied: flat, in_model: true }
}

// ---------------------------------------------------------------------------------------------
// the model request (statement tokens of Driver/C01.lean); variables: 0 = qx, 1 = qy, 2 = scratch
// (nested families: 1 = qx, 0 = row under construction, 2 = qy)
fn model_request(name: &str, s: &Sz, aliased: bool) -> Option<String> {
    let name = name.trim_end_matches("@typed"); // a type annotation does not change the model's history
    let n = s.n;
    let mut t: Vec<String> = vec![];
    let (holders, nn): (u64, u64);
    let flat_setup = |t: &mut Vec<String>| {
        t.push(format!("as:0:ri0*{}", n));
        if aliased {
            t.push("as:1:v0".into());
        }
    };
    let rows_setup = |t: &mut Vec<String>, rows: u64, len: u64| {
        t.push("as:1:l".into());
        for _ in 0..rows {
            t.push(format!("as:0:ri0*{}", len));
            t.push("ap:1::v0".into());
        }
        t.push("as:0:n".into());
        if aliased {
            t.push("as:2:v1".into());
        }
    };
    match name {
        "list_set" => {
            flat_setup(&mut t);
            (0..n).for_each(|i| t.push(format!("si:0:{}:i{}", i, i)));
            (holders, nn) = (aliased as u64, n);
        }
        "list_append" => {
            flat_setup(&mut t);
            (0..n).for_each(|i| t.push(format!("ap:0::i{}", i)));
            (holders, nn) = (aliased as u64, n);
        }
        "list_pop" => {
            flat_setup(&mut t);
            (0..n).for_each(|_| t.push("po:2:0:".into()));
            (holders, nn) = (aliased as u64, n);
        }
        "list_remove_end" => {
            flat_setup(&mut t);
            (0..n).for_each(|_| t.push("rm:2:0::-1".into()));
            (holders, nn) = (aliased as u64, n);
        }
        "list_consume" => {
            flat_setup(&mut t);
            for i in 0..n {
                t.push("co:2:0:".into());
                t.push(format!("ap:2::i{}", i));
                t.push("co:0:2:".into());
            }
            (holders, nn) = (aliased as u64, n);
        }
        "rows_set" | "rows_append" => {
            rows_setup(&mut t, s.r, s.r);
            for i in 0..s.r {
                for j in 0..s.r {
                    if name == "rows_set" {
                        t.push(format!("si:1:{},{}:i1", i, j));
                    } else {
                        t.push(format!("ap:1:{}:i1", i));
                    }
                }
            }
            // one additional holder of the outer list: the outer list and every row are copied once
            (holders, nn) = (aliased as u64, s.r * s.r + s.r);
        }
        "wide_set" => {
            rows_setup(&mut t, 4, s.w);
            for i in 0..4 {
                for j in 0..s.w {
                    t.push(format!("si:1:{},{}:i1", i, j));
                }
            }
            (holders, nn) = (aliased as u64, 4 * s.w + 4);
        }
        "rows_shared_set" => {
            t.push(format!("as:0:ri0*{}", s.r));
            t.push(format!("as:1:rv0*{}", s.r));
            t.push("as:0:n".into());
            if aliased {
                t.push("as:2:v1".into());
            }
            for i in 0..s.r {
                for j in 0..s.r {
                    t.push(format!("si:1:{},{}:i1", i, j));
                }
            }
            if aliased {
                // outer list once + every slot's row once (the alias keeps the shared row alive)
                (holders, nn) = (1, s.r * s.r + s.r);
            } else {
                // one row payload of r elements with r - 1 additional holders
                (holders, nn) = (s.r - 1, s.r);
            }
        }
        "pp_pow2_built" | "pp_pow2_popfirst" | "pp_cow" | "pp_grown" | "pp_half_push" | "pp_half_pop" | "pp_rows" => {
            let path = if name == "pp_rows" { "1" } else { "" };
            match name {
                "pp_cow" => {
                    t.push(format!("as:3:ri0*{}", n));
                    t.push("as:4:v3".into());
                    t.push("as:0:v3".into());
                    t.push("si:0:0:i1".into());
                }
                "pp_rows" => {
                    for tok in ["as:0:l", "as:2:l", "ap:0::v2", "as:2:l", "ap:0::v2", "as:2:n"] {
                        t.push(tok.into());
                    }
                    (0..n).for_each(|i| t.push(format!("ap:0:1:i{}", i)));
                }
                _ => {
                    let (built, popped) = match name {
                        "pp_grown" => (3 * n / 2, n / 2),
                        "pp_half_push" | "pp_half_pop" => (2 * n, n),
                        _ => (n, 0),
                    };
                    t.push("as:0:l".into());
                    (0..built).for_each(|i| t.push(format!("ap:0::i{}", i)));
                    (0..popped).for_each(|_| t.push("po:2:0:".into()));
                }
            }
            if aliased {
                t.push("as:1:v0".into());
            }
            let pop_first = name == "pp_pow2_popfirst" || name == "pp_half_pop";
            for i in 0..n {
                if pop_first {
                    t.push(format!("po:2:0:{}", path));
                    t.push(format!("ap:0:{}:i{}", path, i));
                } else {
                    t.push(format!("ap:0:{}:i{}", path, i));
                    t.push(format!("po:2:0:{}", path));
                }
            }
            let extra = if name == "pp_cow" { 1 } else { 0 }; // the setup's own copy-on-write copy
            (holders, nn) = (aliased as u64 + extra, if name == "pp_rows" { n + 2 } else { n });
        }
        "control" => {
            t.push(format!("as:0:ri0*{}", n));
            t.push("as:1:v0".into());
            for i in 0..n {
                t.push("as:1:v0".into());
                t.push(format!("si:0:{}:i{}", i, i));
            }
            (holders, nn) = (1, n);
        }
        _ => return None,
    }
    Some(format!("cost {} {} 5 {}", holders, nn, t.join(" ")))
}

// ---------------------------------------------------------------------------------------------
// one measurement
#[derive(Clone, Default, Debug)]
struct Meas {
    bytes: u64,
    calls: u64,
    largest: u64,
    big: u64,
    reallocs: u64,
    /// None = ran and checked out; Some(why) = the workload is broken
    broken: Option<String>,
    result: String,
}

fn measure(prelude: &str, setup: &str, work: &str, big_thresh: u64, checks: &[(String, String)]) -> Meas {
    let mut m = Meas::default();
    let it = Interp::new();
    for (what, src) in [("prelude", prelude), ("setup", setup)] {
        match it.eval_obj(src) {
            Ok(_) => {}
            Err(o) => {
                m.broken = Some(format!("{} failed: {}", what, o.detail()));
                return m;
            }
        }
    }
    let expr = match catch_unwind(AssertUnwindSafe(|| noulith::parse(work))) {
        Ok(Ok(Some(e))) => e,
        Ok(Ok(None)) => {
            m.broken = Some("workload is empty".into());
            return m;
        }
        Ok(Err(e)) => {
            m.broken = Some(format!("workload parse error: {}", e.render(work).lines().next().unwrap_or("")));
            return m;
        }
        Err(_) => {
            m.broken = Some("workload parser panicked".into());
            return m;
        }
    };
    let env = it.env.clone();
    BYTES.store(0, Relaxed);
    CALLS.store(0, Relaxed);
    LARGEST.store(0, Relaxed);
    BIG_CALLS.store(0, Relaxed);
    REALLOCS.store(0, Relaxed);
    BIG_THRESH.store(big_thresh.max(1), Relaxed);
    set_counting(true);
    let r = catch_unwind(AssertUnwindSafe(|| noulith::evaluate(&env, &expr)));
    set_counting(false);
    m.bytes = BYTES.load(Relaxed);
    m.calls = CALLS.load(Relaxed);
    m.largest = LARGEST.load(Relaxed);
    m.big = BIG_CALLS.load(Relaxed);
    m.reallocs = REALLOCS.load(Relaxed);
    match r {
        Ok(Ok(_)) => m.result = "ok".into(),
        Ok(Err(e)) => {
            let why = match e {
                noulith::NErr::Throw(o, _) => format!("throw: {}", format!("{}", o).lines().next().unwrap_or("")),
                noulith::NErr::Break(..) => "escape: break".to_string(),
                noulith::NErr::Continue(..) => "escape: continue".to_string(),
                noulith::NErr::Return(..) => "escape: return".to_string(),
            };
            m.result = why.clone();
            m.broken = Some(format!("workload raised: {}", why));
            return m;
        }
        Err(_) => {
            m.result = "panic".into();
            m.broken = Some("workload panicked".into());
            return m;
        }
    }
    for (src, want) in checks {
        let got = it.eval(src).detail();
        if got != format!("ok {}", want) {
            m.broken = Some(format!("check {} gave {} (expected ok {})", src, got, want));
            return m;
        }
    }
    m
}

fn exponent(b1: u64, b2: u64, x1: u64, x2: u64) -> f64 {
    if b1 == 0 || b2 == 0 || x1 == 0 || x2 == 0 || x1 == x2 {
        return 0.0;
    }
    (b2 as f64 / b1 as f64).ln() / (x2 as f64 / x1 as f64).ln()
}

/// classification (a): "linear" | "quadratic" | "unclear(..)"
fn classify_growth(bytes: &[u64; 3], xs: &[u64; 3]) -> (String, f64, f64) {
    let e1 = exponent(bytes[0], bytes[1], xs[0], xs[1]);
    let e2 = exponent(bytes[1], bytes[2], xs[1], xs[2]);
    let m = e1.max(e2);
    let c = if bytes[2] < 64 * 1024 || m < 1.3 {
        "linear".to_string()
    } else if m >= 1.7 {
        "quadratic".to_string()
    } else {
        format!("unclear(e1={:.2},e2={:.2})", e1, e2)
    };
    (c, e1, e2)
}

fn run_driver_parallel(driver: &str, requests: &[String], threads: usize) -> Vec<String> {
    if requests.is_empty() {
        return vec![];
    }
    let t = threads.min(requests.len()).max(1);
    let mut buckets: Vec<Vec<(usize, String)>> = vec![vec![]; t];
    for (i, r) in requests.iter().enumerate() {
        buckets[i % t].push((i, r.clone()));
    }
    let mut out = vec![String::new(); requests.len()];
    let handles: Vec<_> = buckets
        .into_iter()
        .map(|b| {
            let d = driver.to_string();
            std::thread::spawn(move || {
                let reqs: Vec<String> = b.iter().map(|x| x.1.clone()).collect();
                let resp = run_driver(&d, &reqs);
                b.iter().map(|x| x.0).zip(resp).collect::<Vec<_>>()
            })
        })
        .collect();
    for h in handles {
        for (i, r) in h.join().expect("driver thread") {
            out[i] = r;
        }
    }
    out
}

/// parse `ok <copied> <pushes> <allocs>\tok <bound>`
fn parse_cost(resp: &str) -> Option<(u64, u64, u64, u64)> {
    let (a, b) = split_resp(resp);
    let av: Vec<&str> = a.split(' ').collect();
    let bv: Vec<&str> = b.split(' ').collect();
    if av.len() == 4 && av[0] == "ok" && bv.len() >= 2 && bv[0] == "ok" {
        Some((av[1].parse().ok()?, av[2].parse().ok()?, av[3].parse().ok()?, bv[1].parse().ok()?))
    } else {
        None
    }
}

struct Row {
    fam: usize, // index into fams (last = control)
    aliased: bool,
    szs: [Sz; 3],
    meas: Vec<Meas>,
    reqs: [Option<usize>; 3], // index into the request list
}

fn replay(args: &Args, path: &str) {
    let text = std::fs::read_to_string(path).expect("replay file");
    for line in text.lines() {
        if let Some(rest) = line.strip_prefix("input: ") {
            let parts: Vec<&str> = rest.split(" ;; ").collect();
            if parts.len() < 3 {
                println!("rust: cannot parse input (want `<setup> ;; <workload> ;; n=<n>`)");
                continue;
            }
            let n0: u64 = parts[2].trim().trim_start_matches("n=").parse().unwrap_or(2000);
            let mut bytes = [0u64; 3];
            let mut xs = [0u64; 3];
            for (i, mult) in [1u64, 2, 4].iter().enumerate() {
                let s = Sz::new(n0 * mult);
                let m = measure(&s.prelude(), parts[0], parts[1], s.n * 4, &[]);
                bytes[i] = m.bytes;
                xs[i] = 2 * s.n;
                println!(
                    "rust: n={} bytes={} alloc_calls={} largest_request={} requests>=4n_bytes={} reallocs={} bytes/(n+k)={:.1} workload={}{}",
                    s.n, m.bytes, m.calls, m.largest, m.big, m.reallocs, m.bytes as f64 / (2 * s.n) as f64, m.result,
                    m.broken.map(|b| format!(" BROKEN: {}", b)).unwrap_or_default()
                );
            }
            let (c, e1, e2) = classify_growth(&bytes, &xs);
            let unal_bound = ALPHA + BETA * xs[0];
            println!(
                "rust: growth exponents e1={:.3} e2={:.3} -> {}; bytes(n0)={} vs bound without copies {} / with one copy of n list elements {}",
                e1, e2, c, bytes[0], unal_bound, unal_bound + GAMMA * n0 * elem_size(Kind::List)
            );
        }
        if let Some(rest) = line.strip_prefix("request: ") {
            let r = run_driver(&args.driver, &[rest.to_string()]);
            println!("model (impl: ok copied pushes allocs, spec: ok allowed-copies): {}", r[0]);
        }
    }
}

fn main() {
    let args = parse_args();
    install_quiet_panic_hook();
    if let Some(path) = &args.replay {
        replay(&args, path);
        return;
    }
    let mut rep = Report::new("C02", &args);
    let (n0, n0_control, n0_pow2) = match args.tier.as_str() {
        "thorough" => (16_000u64, 4_000u64, 16_384u64),
        _ => (2_000u64, 2_000u64, 2_048u64),
    };
    rep.rule = format!(
        "every workload family (lists: x[i]=v, append=, ++=, x[i] f= v, pop, remove at end, consume round trip; \
         dicts: new keys, overwrite, |.=, x[k] f= v, -.=, remove, ||=; vectors/bytes: x[i]=v, append=, x[i] f= v; strings: \
         single-byte assignment; nested rows (square unshared, square shared payload, 4 wide rows): x[i][j]=v, x[i] append=; \
         struct fields: x[f][i]=v, x[f] append=; a collection held under a dict key, incl. int keys, two keys, \
         dict-of-list-of-dict, list-of-dict, struct-field-of-dict, default dicts: d[k] append=, ++=, |.=, d[k][i] f= v, \
         d[k][i] = v; user-defined closures as the operator of an op-assign (x f= v, x .= f) mutating their \
         parameter, on lists, rows, dicts, dict values, struct fields, vectors, bytes; append/pop pairs at a \
         capacity boundary with n = 2^m exactly; pop / remove / consume through default dicts ({{:[]}}, nested, in a struct \
         field, in a list), plain dicts, struct fields and nested lists; container-merging builtins as op-assign \
         operators on a large left operand: ||++ (top level, in a list, struct field, under a dict key), ||+, ||-, \
         ||, --, &&, discard, insert, |.., .= reverse; less common lvalue forms of op-assign: with-default target \
         (d[k] = default) f= v with the key present (append, ++, |., +, a user closure; nested in a list, under a dict key, \
         in a struct field) and absent, `and` targets (a and b) f= v on variables, rows, dict entries, three targets, \
         unpacking target (a, b) map= f; `++=` on full vector / bytes buffers (2^m appends, exact size, copy-on-write copy; \
         top level, dict value, list row, struct field); a `::field` (symbol) twin of every struct-field family plus \
         x::f[i] f= v, x::f[i][j] = v, new dict keys in x::f, struct inside a list / dict) x (variable declared with `:=`, declared with a type annotation `qx: list = ..` = `@typed`) x \
         (unaliased, once-aliased) x sizes n0={}, 2 n0, 4 n0 with k = n \
         statements, each in a fresh interpreter; bytes requested from the global allocator during evaluate() of the \
         workload only; a case is one (family, variant, size) measurement; plus the quadratic control (self-test)",
        n0
    );
    let _ = Rng::new(args.seed); // the workloads are deterministic: nothing is drawn from the seed

    let t_start = std::time::Instant::now();
    let mut fams = families();
    let sym_fams: Vec<Family> = fams.iter().filter(|f| f.work.contains("qx[fa]")).map(sym_twin).collect();
    fams.extend(sym_fams);
    let typed_fams: Vec<Family> = fams.iter().map(typed).collect();
    fams.extend(typed_fams);
    fams.push(control_family());
    let control_idx = fams.len() - 1;

    // ---- 0. plan: rows, sizes and model requests (the Lean driver then runs in the background while the
    // interpreter is measured: the counting allocator only counts on the measuring thread)
    let mut rows: Vec<Row> = vec![];
    let mut requests: Vec<String> = vec![];
    let mut replay_req: Vec<Option<String>> = vec![];
    let mut req_index: std::collections::HashMap<String, usize> = Default::default();
    let mut info_notes: Vec<String> = vec![];
    for (fi, f) in fams.iter().enumerate() {
        // the once-aliased variant of a @typed family adds nothing over (typed unaliased, untyped aliased): skipped
        let variants: &[bool] = if fi == control_idx {
            &[true]
        } else if f.name.ends_with("@typed") {
            &[false]
        } else {
            &[false, true]
        };
        for &aliased in variants {
            let base = if fi == control_idx {
                n0_control
            } else if core_name(f.name).starts_with("bpp_") {
                4 * n0_pow2
            } else if core_name(f.name).starts_with("vpp_") {
                n0_pow2
            } else if f.name.starts_with("tq_") {
                n0_control
            } else if core_name(f.name).starts_with("pp_") {
                n0_pow2
            } else {
                n0
            };
            let szs = [Sz::new(base), Sz::new(2 * base), Sz::new(4 * base)];
            let mut reqs = [None, None, None];
            for (si, s) in szs.iter().enumerate() {
                if fi == control_idx {
                    // the control's model request is qualitative (copied = n * n): one request at a small size
                    if si == 0 {
                        let ms = Sz::new(s.n.min(MODEL_MAX_N_CONTROL));
                        if let Some(r) = model_request(f.name, &ms, aliased) {
                            reqs[si] = Some(requests.len());
                            requests.push(r);
                        }
                    }
                } else if f.in_model && s.n <= MODEL_MAX_N {
                    if let Some(r) = model_request(f.name, s, aliased) {
                        // a @typed family has the same model history: the request is sent once
                        let qi = *req_index.entry(r.clone()).or_insert_with(|| {
                            requests.push(r);
                            requests.len() - 1
                        });
                        reqs[si] = Some(qi);
                    }
                }
            }
            // the request kept in the replay: the smallest size, if it is short enough
            let rr = if f.in_model {
                model_request(f.name, &Sz::new(base.min(if f.name.starts_with("pp_") { 1024 } else { 2000 })), aliased).filter(|r| r.len() <= 100_000)
            } else {
                None
            };
            replay_req.push(rr);
            rows.push(Row { fam: fi, aliased, szs, meas: vec![], reqs });
        }
    }
    let driver_thread = {
        let driver = args.driver.clone();
        let reqs = requests.clone();
        std::thread::spawn(move || {
            let t = std::time::Instant::now();
            let r = run_driver_parallel(&driver, &reqs, 12);
            (r, t.elapsed())
        })
    };

    // ---- 1. measurements
    for row in rows.iter_mut() {
        let f = &fams[row.fam];
        let setup = if row.aliased { format!("{}; qy := qx", f.setup) } else { f.setup.to_string() };
        for s in row.szs.iter() {
            let mut checks = vec![(f.check.to_string(), (f.expect)(s))];
            if row.aliased {
                checks.push((f.check_alias.to_string(), (f.expect_alias)(s)));
            }
            // "big" request = at least half of one full copy of the payload
            let thresh = (f.nelem)(s).max((f.k)(s)) * elem_size(f.kind) / 2;
            let m = measure(&s.prelude(), &setup, f.work, thresh, &checks);
            let input = format!("{} ;; {} ;; n={}", setup, f.work, s.n);
            rep.case(&input, true);
            rep.arm(if row.fam == control_idx { "control:quadratic" } else { f.name });
            row.meas.push(m);
        }
    }

    let t_meas = t_start.elapsed();
    // ---- 1b. observations only (outside the quantifier, not judged)
    for (f, why) in observation_families() {
        let mut b = [0u64; 3];
        let mut xs = [0u64; 3];
        let mut broken = None;
        for (i, mult) in [1u64, 2, 4].iter().enumerate() {
            let s = Sz::new(500 * mult);
            let m = measure(&s.prelude(), f.setup, f.work, s.n * elem_size(f.kind) / 2, &[(f.check.to_string(), (f.expect)(&s))]);
            b[i] = m.bytes;
            xs[i] = 2 * s.n;
            broken = broken.or(m.broken);
        }
        let (c, e1, e2) = classify_growth(&b, &xs);
        info_notes.push(format!(
            "observation only, NOT judged: {}: {} ;; {} ;; n=500,1000,2000 bytes=[{},{},{}] e=[{:.2},{:.2}] -> {} by design ({}){}",
            f.name, f.setup, f.work, b[0], b[1], b[2], e1, e2, c, why,
            broken.map(|w| format!(" BROKEN: {}", w)).unwrap_or_default()
        ));
    }
    info_notes.push(
        "observation only: `prepend` takes (element, list), so it cannot be the operator of an op-assign on the list \
         (`qx prepend= i` raises); not measured.  String `$=` and `qx = qx ++ [i]` are outside the property (not op-assign \
         on a collection payload / not an op-assign) and quadratic"
            .to_string(),
    );

    let t_obs = t_start.elapsed();
    // ---- 2. the model's cost ledger
    let (resp, t_driver) = driver_thread.join().expect("driver thread");

    let t_model = t_start.elapsed();
    // ---- 3. verdicts
    let obj = elem_size(Kind::List);
    rep.notes.push(format!(
        "constants: ALPHA={} BETA={} (uc_* families: 3500) GAMMA={} ELEM list={} dict={} vector={} bytes=1; sizes n0={} (control {}, pp_* families 2^m: quick 2048, thorough 16384); model requests for n <= {} (control <= {}); \
         columns: bytes at n0,2n0,4n0 | exponents | alloc calls | largest single request | requests >= half a payload copy | realloc calls | bytes/(n+k) | copied (model or closed form) | bound at n0",
        ALPHA, BETA, GAMMA, obj, elem_size(Kind::Dict), elem_size(Kind::Vector), n0, n0_control, MODEL_MAX_N, MODEL_MAX_N_CONTROL
    ));
    let mut unaliased_bytes: std::collections::HashMap<usize, [u64; 3]> = Default::default();
    let mut measured_only: Vec<String> = vec![];
    for (ri, row) in rows.iter().enumerate() {
        let f = &fams[row.fam];
        let is_control = row.fam == control_idx;
        let variant = if is_control { "control" } else if row.aliased { "aliased" } else { "unaliased" };
        let setup = if row.aliased { format!("{}; qy := qx", f.setup) } else { f.setup.to_string() };
        let mut input = format!("{} ;; {} ;; n={}", setup, f.work, row.szs[0].n);
        if let Some(r) = &replay_req[ri] {
            input.push_str("\nrequest: ");
            input.push_str(r);
        }
        // broken workloads
        if let Some((si, why)) = row.meas.iter().enumerate().find_map(|(i, m)| m.broken.clone().map(|w| (i, w))) {
            rep.outcome("broken");
            rep.notes.push(format!("{:<16} {:<9} BROKEN at n={}: {}", f.name, variant, row.szs[si].n, why));
            rep.judge(&format!("{}:broken", f.name), &input, &format!("broken: {}", why), "ok linear", "ok linear");
            continue;
        }
        let bytes = [row.meas[0].bytes, row.meas[1].bytes, row.meas[2].bytes];
        let xs = [
            (f.nelem)(&row.szs[0]) + (f.k)(&row.szs[0]),
            (f.nelem)(&row.szs[1]) + (f.k)(&row.szs[1]),
            (f.nelem)(&row.szs[2]) + (f.k)(&row.szs[2]),
        ];
        if !row.aliased {
            unaliased_bytes.insert(row.fam, bytes);
        }
        // predicted copies: the model where it answered, the closed form otherwise
        let mut copied = [0u64; 3];
        let mut model_copied: [Option<u64>; 3] = [None; 3];
        let mut impl_str = "ok linear".to_string();
        let mut driver_problem: Option<String> = None;
        for si in 0..3 {
            let closed = if is_control {
                row.szs[si].n // what an honest once-aliased workload would copy
            } else if row.aliased {
                (f.copied)(&row.szs[si]).1
            } else {
                (f.copied)(&row.szs[si]).0
            };
            copied[si] = closed;
            if let Some(qi) = row.reqs[si] {
                match parse_cost(&resp[qi]) {
                    Some((c, _pushes, _allocs, allowed)) => {
                        model_copied[si] = Some(c);
                        if c > allowed + 16 {
                            impl_str = "ok quadratic".into();
                        }
                        if !is_control {
                            copied[si] = c;
                            if c != closed {
                                rep.fidelity.push(format!(
                                    "{} {} n={}: model copied {} differs from the closed form {}",
                                    f.name, variant, row.szs[si].n, c, closed
                                ));
                            }
                        }
                    }
                    None => driver_problem = Some(resp[qi].clone()),
                }
            }
        }
        if let Some(p) = driver_problem {
            rep.outcome("driver-error");
            rep.judge("driver", &input, "ok", &p.chars().take(200).collect::<String>(), "ok");
            continue;
        }
        if !f.in_model {
            measured_only.push(format!("{}:{}", f.name, variant));
        }
        let elem = elem_size(f.kind);
        let beta = beta_for(f.name);
        let bounds: Vec<u64> = (0..3).map(|i| ALPHA + beta * xs[i] + GAMMA * copied[i] * elem).collect();
        let (growth, e1, e2) = classify_growth(&bytes, &xs);
        let over = (0..3).find(|&i| bytes[i] > bounds[i]);
        let rust = if growth != "linear" {
            format!("ok {}", growth)
        } else if let Some(i) = over {
            format!("ok over-bound(n={},bytes={},bound={})", row.szs[i].n, bytes[i], bounds[i])
        } else {
            "ok linear".to_string()
        };
        let mc = |i: usize| match model_copied[i] {
            Some(c) if is_control => format!("model(n={}):{}", row.szs[0].n.min(MODEL_MAX_N_CONTROL), c),
            Some(c) => c.to_string(),
            None => format!("~{}", copied[i]),
        };
        rep.notes.push(format!(
            "{:<16} {:<9} bytes=[{},{},{}] e=[{:.2},{:.2}] calls=[{},{},{}] largest=[{},{},{}] big=[{},{},{}] reallocs=[{},{},{}] per(n+k)=[{:.1},{:.1},{:.1}] copied=[{},{},{}] bound(n0)={} over-bound={} -> {}",
            f.name, variant, bytes[0], bytes[1], bytes[2], e1, e2,
            row.meas[0].calls, row.meas[1].calls, row.meas[2].calls,
            row.meas[0].largest, row.meas[1].largest, row.meas[2].largest,
            row.meas[0].big, row.meas[1].big, row.meas[2].big,
            row.meas[0].reallocs, row.meas[1].reallocs, row.meas[2].reallocs,
            bytes[0] as f64 / xs[0] as f64, bytes[1] as f64 / xs[1] as f64, bytes[2] as f64 / xs[2] as f64,
            mc(0), mc(1), mc(2), bounds[0],
            over.map(|i| format!("yes(x{:.1} at n={})", bytes[i] as f64 / bounds[i] as f64, row.szs[i].n)).unwrap_or("no".into()),
            &rust[3..]
        ));
        if is_control {
            // self-test: the measurement must see one copy per statement as quadratic AND over the bound
            let seen = growth == "quadratic" && over.is_some();
            rep.outcome(if seen { "quadratic" } else { "selftest-failed" });
            let rust_c = if seen {
                "ok quadratic".to_string()
            } else {
                format!("ok {}{}", growth, if over.is_some() { " over-bound" } else { " within-bound" })
            };
            rep.judge("selftest", &input, &rust_c, &impl_str, "ok quadratic");
            rep.fidelity.push(format!(
                "control n={}: measured {} bytes, one copy per statement = n*n*ELEM = {} (ratio {:.3}); bound for an honest once-aliased workload {} (exceeded x{:.0})",
                row.szs[0].n, bytes[0], row.szs[0].n * row.szs[0].n * elem,
                bytes[0] as f64 / (row.szs[0].n * row.szs[0].n * elem) as f64, bounds[0], bytes[0] as f64 / bounds[0] as f64
            ));
            continue;
        }
        rep.outcome(&rust[3..].split('(').next().unwrap_or("?").to_string());
        rep.judge(&format!("{}:{}", f.name, variant), &input, &rust, &impl_str, "ok linear");
        // fidelity: the extra bytes of the aliased variant against copied * ELEM
        if row.aliased {
            if let Some(ub) = unaliased_bytes.get(&row.fam) {
                let base_copied = (f.copied)(&row.szs[0]).0;
                let extra_copied = copied[0].saturating_sub(base_copied);
                let delta = bytes[0] as i64 - ub[0] as i64;
                // (dicts: the clone keeps the bucket count, between 8/7 and 16/7 entries per element)
                let payload = extra_copied * elem;
                rep.fidelity.push(format!(
                    "{} n={}: aliased - unaliased = {} bytes; model/closed-form copied {} x ELEM {} = {} (ratio {:.3}{})",
                    f.name, row.szs[0].n, delta, extra_copied, elem, payload,
                    if payload > 0 { delta as f64 / payload as f64 } else { 0.0 },
                    if f.kind == Kind::Dict { ", ELEM is the worst-case bucket cost" } else { "" }
                ));
            }
        } else if (f.copied)(&row.szs[0]).0 > 0 {
            rep.fidelity.push(format!(
                "{} n={}: shared payloads, model copied {} x ELEM {} = {} of the measured {} bytes",
                f.name, row.szs[0].n, copied[0], elem, copied[0] * elem, bytes[0]
            ));
        }
    }
    rep.notes.push(format!(
        "measured-only (outside the model's statement vocabulary; closed-form prediction 0 / n copied): {}",
        measured_only.join(" ")
    ));
    rep.notes.extend(info_notes);
    rep.notes.push(format!(
        "wall time: measurements {:.1}s, observations {:.1}s, model {:.1}s in the background (waited {:.1}s more)",
        t_meas.as_secs_f64(), (t_obs - t_meas).as_secs_f64(), t_driver.as_secs_f64(), (t_model - t_obs).as_secs_f64()
    ));
    rep.notes.push(format!("model requests: {} (all sizes <= {})", requests.len(), MODEL_MAX_N));
    rep.write(&args.out);
}
