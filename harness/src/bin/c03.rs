//! C03 correspondence: infix chains of the real interpreter vs the Impl model of `ChainEvaluator` /
//! the `Expr::Chain` arm / `Func::ChainSection` vs the Spec (precedence climbing + bottom-up
//! evaluation of the tree).
//!
//! Operators are the harness's own `Builtin` (`TreeOp`): applying one builds the list
//! `[id, args…]`, so the result value IS the grouping; `try_chain` is decided by class, so every
//! mix of chainable and ordinary operators can be produced; every application and every operand /
//! backticked operator evaluation is logged.  The same configurations are driven three ways:
//!   ce   `ChainEvaluator::{new, give, finish}` directly (pub API),
//!   src  rendered source through `parse` + `evaluate` (precedences assigned at run time through
//!        `f::precedence = p` or given at registration), as a direct chain,
//!   sec  the same with `_` holes, the resulting section applied later,
//! plus `real`: chains over the real chainable / arithmetic builtins, compared with the call-form
//! rendering of the tree the model predicts, and `tables`: the generated registration table against
//! the precedences the running interpreter really carries.
use noulith::{Assoc, Builtin, ChainEvaluator, Func, NErr, NRes, Obj, ObjType, Precedence, REnv, Rc};
use std::any::Any;
use std::cell::RefCell;
use std::panic::{catch_unwind, AssertUnwindSafe};
use vharness::*;

thread_local! {
    static LOG: RefCell<Vec<String>> = RefCell::new(Vec::new());
}
fn log_push(s: String) {
    LOG.with(|l| l.borrow_mut().push(s));
}
fn log_take() -> Vec<String> {
    LOG.with(|l| std::mem::take(&mut *l.borrow_mut()))
}

#[derive(Debug, Clone)]
struct TreeOp {
    id: String,
    cls: u32,
    accepts: u32,
    limit: u32,
    fail: u32,
}
impl Builtin for TreeOp {
    fn run(&self, _env: &REnv, args: Vec<Obj>) -> NRes<Obj> {
        log_push(format!("a:{}", self.id));
        match self.fail {
            0 => {
                let mut v = vec![Obj::from(self.id.clone())];
                v.extend(args);
                Ok(Obj::list(v))
            }
            1 => Err(NErr::throw("treeop refuses".to_string())),
            _ => panic!("treeop panics"),
        }
    }
    fn builtin_name(&self) -> &str {
        &self.id
    }
    fn try_chain(&self, other: &Func) -> Option<Func> {
        match other {
            Func::Builtin(b) => match (b.as_ref() as &dyn Any).downcast_ref::<TreeOp>() {
                Some(o) if self.limit > 0 && (self.accepts >> o.cls) & 1 == 1 => {
                    Some(Func::Builtin(Rc::new(TreeOp {
                        id: format!("{}_{}", self.id, o.id),
                        cls: self.cls,
                        accepts: self.accepts,
                        limit: if self.limit == 9 { 9 } else { self.limit - 1 },
                        fail: self.fail,
                    })))
                }
                _ => None,
            },
            _ => None,
        }
    }
}

/// `lg(i)`: logs `e<i>`, value i.  `lgt(i)`: logs, then throws.  `lgo(k, f)`: logs `o<k>`, value f.
#[derive(Debug, Clone)]
struct Lg(&'static str);
impl Builtin for Lg {
    fn run(&self, _env: &REnv, args: Vec<Obj>) -> NRes<Obj> {
        let first = args.get(0).map(|o| canon(o)).unwrap_or_default();
        match self.0 {
            "lg" => {
                log_push(format!("e{}", first));
                Ok(args.into_iter().next().unwrap_or(Obj::Null))
            }
            "lgm" => {
                log_push("m".to_string());
                Ok(Obj::Null)
            }
            "lgv" => {
                log_push(format!("v:{}", first));
                Ok(args.into_iter().next().unwrap_or(Obj::Null))
            }
            "lgt" => {
                log_push(format!("e{}", first));
                Err(NErr::throw("operand refuses".to_string()))
            }
            _ => {
                log_push(format!("o{}", first));
                Ok(args.into_iter().nth(1).unwrap_or(Obj::Null))
            }
        }
    }
    fn builtin_name(&self) -> &str {
        self.0
    }
}

// ---------------------------------------------------------------------------------------------
/// chain-class configurations of a generated operator
const CONFIGS: &[(u32, u32, u32)] = &[
    (0, 0, 0),      // A plain
    (1, 0b0010, 9), // B chains with its own class, any number of times (comparisons, zip, **)
    (2, 0b1000, 9), // C chains with class 3 only (til/to … by, fold … from, replace … with)
    (3, 0, 0),      // D the preposition: accepted by C, accepts nothing
    (1, 0b0010, 1), // E like B but merges at most once (tryChain that depends on the history)
];

#[derive(Clone, Debug)]
struct OpSpec {
    cfg: usize,
    fail: u32,
    prec: Option<i64>, // None = NaN
    rassoc: bool,
    pos: usize, // which pool variable of that shape (keeps operators of one chain distinct)
}
impl OpSpec {
    fn id(&self) -> String {
        format!("t{}{}f{}x{}", if self.rassoc { "R" } else { "L" }, self.cfg, self.fail, self.pos)
    }
    fn treeop(&self) -> TreeOp {
        let (cls, accepts, limit) = CONFIGS[self.cfg];
        TreeOp { id: self.id(), cls, accepts, limit, fail: self.fail }
    }
    fn token(&self) -> String {
        let (cls, accepts, limit) = CONFIGS[self.cfg];
        format!(
            "{},{},{},{},{},{},{}",
            self.id(),
            cls,
            accepts,
            limit,
            self.fail,
            match self.prec {
                None => "n".to_string(),
                Some(r) => r.to_string(),
            },
            if self.rassoc { "R" } else { "L" }
        )
    }
}

/// order-preserving choice of actual `f64`s for the ranks of one case
const POOL: &[(f64, &str)] = &[
    (f64::NEG_INFINITY, "(0-1.0/0.0)"),
    (-1000000.0, "(0-1000000)"),
    (-2.5, "(0-2.5)"),
    (-1.0, "(0-1)"),
    (0.0, "0"),
    (0.5, "0.5"),
    (1.0, "1"),
    (3.0, "3.0"),
    (4.25, "4.25"),
    (5.0, "5"),
    (6.0, "6"),
    (1000000.0, "1000000"),
    (f64::INFINITY, "(1.0/0.0)"),
];
fn rank_values(ops: &[OpSpec], salt: u64) -> std::collections::BTreeMap<i64, (f64, String)> {
    let mut ranks: Vec<i64> = ops.iter().filter_map(|o| o.prec).collect();
    ranks.sort();
    ranks.dedup();
    let mut m = std::collections::BTreeMap::new();
    let k = ranks.len();
    if k == 0 {
        return m;
    }
    // choose an increasing subsequence of POOL of length k, start/stride from salt
    let n = POOL.len();
    if k > n {
        for (i, r) in ranks.iter().enumerate() {
            m.insert(*r, (i as f64, format!("{}", i)));
        }
        return m;
    }
    let slack = n - k;
    let mut r = Rng::new(salt);
    let mut idx = r.below(slack as u64 + 1) as usize;
    for (i, rk) in ranks.iter().enumerate() {
        let remaining = k - i - 1;
        let maxidx = n - remaining - 1;
        if idx > maxidx {
            idx = maxidx;
        }
        let (mut f, mut s) = (POOL[idx].0, POOL[idx].1.to_string());
        if f == 0.0 && r.chance(1, 2) {
            f = -0.0;
            s = "(0.0*(0-1))".to_string();
        }
        m.insert(*rk, (f, s));
        let room = maxidx - idx;
        idx += 1 + if room > 0 { r.below(std::cmp::min(room as u64, 2) + 1) as usize } else { 0 };
    }
    m
}

#[derive(Clone, Debug)]
enum Opd {
    E(usize),
    T(usize),
    U,
}
#[derive(Clone, Debug)]
enum Opr {
    O(OpSpec),
    B(OpSpec),
    X(usize),
}

#[derive(Clone, Debug)]
struct SrcCase {
    first: Opd,
    rest: Vec<(Opr, Opd)>,
    args: Option<Vec<usize>>, // leaves the section is applied to
    assign: bool,             // precedences through `f::precedence = p` (else at registration)
    salt: u64,
}

struct World {
    interp: Interp,
    loc: Option<Box<dyn Any>>,
    registered: std::collections::HashSet<String>,
}

fn assoc_of(r: bool) -> Assoc {
    if r {
        Assoc::Right
    } else {
        Assoc::Left
    }
}

impl World {
    fn new() -> World {
        let interp = Interp::new();
        {
            let mut e = interp.env.borrow_mut();
            e.insert_builtin(Lg("lg"));
            e.insert_builtin(Lg("lgt"));
            e.insert_builtin(Lg("lgo"));
            e.insert_builtin(Lg("lgv"));
            e.insert_builtin(Lg("lgm"));
        }
        // operator functions for op-assignments on a precedence
        interp.eval("thrower := \\a, b -> throw \"no\"; strer := \\a, b -> \"s\"; addk0 := \\p -> p + 0; addk1 := \\p -> p + 1; addk2 := \\p -> p + 2; addk3 := \\p -> p + 3");
        for k in 0..4 {
            interp.eval(&format!("nf{} := {}", k, 7 + k));
        }
        World { interp, loc: None, registered: Default::default() }
    }
    /// make sure the pool variable for `o` exists (precedence 0 until assigned)
    fn ensure(&mut self, o: &OpSpec, prec: Option<f64>) {
        let id = o.id();
        if self.registered.contains(&id) {
            return;
        }
        self.registered.insert(id);
        self.interp
            .env
            .borrow_mut()
            .insert_builtin_with_precedence(o.treeop(), Precedence(prec.unwrap_or(0.0), assoc_of(o.rassoc)));
    }
}

fn render_src(w: &mut World, c: &SrcCase) -> (String, String) {
    // returns (source, request)
    let ops: Vec<OpSpec> = c
        .rest
        .iter()
        .filter_map(|(o, _)| match o {
            Opr::O(s) | Opr::B(s) => Some(s.clone()),
            _ => None,
        })
        .collect();
    let vals = rank_values(&ops, c.salt);
    let mut prefix = String::new();
    let mut seen = std::collections::HashSet::new();
    for o in &ops {
        w.ensure(o, None);
        if seen.insert(o.id()) {
            let v = match o.prec {
                None => "(0.0/0.0)".to_string(),
                Some(r) => vals[&r].1.clone(),
            };
            prefix.push_str(&format!("{}::precedence = {}; ", o.id(), v));
        }
    }
    let opd = |o: &Opd| match o {
        Opd::E(i) => format!("lg({})", i),
        Opd::T(i) => format!("lgt({})", i),
        Opd::U => "_".to_string(),
    };
    let opd_tok = |o: &Opd| match o {
        Opd::E(i) => format!("E:{}", i),
        Opd::T(i) => format!("T:{}", i),
        Opd::U => "U".to_string(),
    };
    let mut chain = opd(&c.first);
    let mut toks = vec![opd_tok(&c.first)];
    for (k, (o, x)) in c.rest.iter().enumerate() {
        let pos = 2 * k + 1;
        match o {
            Opr::O(s) => {
                chain.push_str(&format!(" {} ", s.id()));
                toks.push(format!("O:{}", s.token()));
            }
            Opr::B(s) => {
                chain.push_str(&format!(" `lgo({}, {})` ", pos, s.id()));
                toks.push(format!("B:{}", s.token()));
            }
            Opr::X(i) => {
                chain.push_str(&format!(" nf{} ", i % 4));
                toks.push(format!("X:{}", i));
            }
        }
        chain.push_str(&opd(x));
        toks.push(opd_tok(x));
    }
    let (src, nargs) = match &c.args {
        None => (format!("{}{}", prefix, chain), "-".to_string()),
        Some(a) => {
            for i in a {
                toks.push(format!("A:{}", i));
            }
            (
                format!("{}({})({})", prefix, chain, a.iter().map(|i| format!("lg({})", i)).collect::<Vec<_>>().join(", ")),
                a.len().to_string(),
            )
        }
    };
    (src, format!("src {} {}", nargs, toks.join(" ")))
}

fn outcome_with_log(o: &Outcome, evals: bool) -> String {
    let log = log_take();
    match o {
        Outcome::Ok(v) => {
            // applications made by a probing operator function (between `m` and `v:`) belong to its
            // inner chain, not to the chain under test
            let mut e: Vec<&str> = vec![];
            let mut a: Vec<&str> = vec![];
            let mut seen: Vec<&str> = vec![];
            let mut pending_apps: Vec<&str> = vec![];
            for s in log.iter() {
                if let Some(x) = s.strip_prefix("a:") {
                    pending_apps.push(x);
                } else if s == "m" {
                    a.extend(pending_apps.drain(..));
                } else if let Some(x) = s.strip_prefix("v:") {
                    seen.push(x);
                    pending_apps.clear(); // the inner chain's applications
                } else {
                    a.extend(pending_apps.drain(..));
                    e.push(s.as_str());
                }
            }
            a.extend(pending_apps.drain(..));
            if evals {
                format!(
                    "ok {} evals={} apps={}{}",
                    v,
                    e.join(","),
                    a.join(","),
                    if seen.is_empty() { String::new() } else { format!(" seen={}", seen.join(";")) }
                )
            } else {
                format!("ok {} apps={}", v, a.join(","))
            }
        }
        other => other.class(),
    }
}

/// drive ChainEvaluator directly
fn run_ce(w: &mut World, first: usize, pairs: &[(OpSpec, usize)], salt: u64) -> String {
    if w.loc.is_none() {
        let e = noulith::parse("1").unwrap().unwrap();
        w.loc = Some(Box::new(e.start));
    }
    let ops: Vec<OpSpec> = pairs.iter().map(|p| p.0.clone()).collect();
    let vals = rank_values(&ops, salt);
    let env = w.interp.env.clone();
    log_take();
    let e = noulith::parse("1").unwrap().unwrap();
    let loc = e.start;
    let r = catch_unwind(AssertUnwindSafe(|| -> NRes<Obj> {
        let mut ev = ChainEvaluator::new(Obj::usize(first));
        for (o, x) in pairs {
            let p = match o.prec {
                None => f64::NAN,
                Some(r) => vals[&r].0,
            };
            ev.give(
                &env,
                Func::Builtin(Rc::new(o.treeop())),
                Precedence(p, assoc_of(o.rassoc)),
                Obj::usize(*x),
                loc,
                loc,
            )?;
        }
        ev.finish(&env)
    }));
    let out = match r {
        Ok(Ok(o)) => Outcome::Ok(canon(&o)),
        Ok(Err(NErr::Throw(o, _))) => Outcome::Throw(format!("{}", o)),
        Ok(Err(_)) => Outcome::Escape("escape".into()),
        Err(_) => Outcome::Panic("panic".into()),
    };
    outcome_with_log(&out, false)
}

fn ce_request(first: usize, pairs: &[(OpSpec, usize)]) -> String {
    let mut t = vec![format!("ce {}", first)];
    for (o, x) in pairs {
        t.push(o.token());
        t.push(x.to_string());
    }
    t.join(" ")
}

// ---------------------------------------------------------------------------------------------
// enumeration of precedence assignments: each operator NaN (-1) or a level, levels = 0..k-1 all used
fn weak_orders(n: usize) -> Vec<Vec<i64>> {
    fn go(n: usize, cur: &mut Vec<i64>, out: &mut Vec<Vec<i64>>) {
        if cur.len() == n {
            let mut lv: Vec<i64> = cur.iter().cloned().filter(|x| *x >= 0).collect();
            lv.sort();
            lv.dedup();
            if lv.iter().enumerate().all(|(i, x)| *x == i as i64) {
                out.push(cur.clone());
            }
            return;
        }
        for v in -1..(n as i64) {
            cur.push(v);
            go(n, cur, out);
            cur.pop();
        }
    }
    let mut out = vec![];
    go(n, &mut vec![], &mut out);
    out
}

fn exhaustive(n: usize, ncfg: usize) -> Vec<Vec<OpSpec>> {
    let mut out = vec![];
    let wos = weak_orders(n);
    let cfg_count = ncfg.pow(n as u32);
    for wo in &wos {
        for am in 0..(1u32 << n) {
            for cm in 0..cfg_count {
                let mut ops = vec![];
                let mut c = cm;
                for i in 0..n {
                    ops.push(OpSpec {
                        cfg: c % ncfg,
                        fail: 0,
                        prec: if wo[i] < 0 { None } else { Some(wo[i]) },
                        rassoc: (am >> i) & 1 == 1,
                        pos: i,
                    });
                    c /= ncfg;
                }
                out.push(ops);
            }
        }
    }
    out
}

fn random_ops(rng: &mut Rng, n: usize, with_fail: bool) -> Vec<OpSpec> {
    let levels = 1 + rng.below(std::cmp::min(n as u64, 5));
    let nan_pct = *rng.pick(&[0u64, 0, 10, 30]);
    let cfg_mode = rng.below(4);
    (0..n)
        .map(|i| OpSpec {
            cfg: match cfg_mode {
                0 => 0,
                1 => *rng.pick(&[0usize, 1, 1]),
                2 => *rng.pick(&[0usize, 2, 3, 3]),
                _ => rng.below(CONFIGS.len() as u64) as usize,
            },
            fail: if with_fail && rng.chance(1, 6) { if rng.chance(1, 5) { 2 } else { 1 } } else { 0 },
            prec: if rng.below(100) < nan_pct { None } else { Some(rng.below(levels) as i64) },
            rassoc: rng.chance(1, 2),
            pos: if rng.chance(1, 8) && i > 0 { rng.below(i as u64) as usize } else { i },
        })
        .collect()
}

/// operators sharing a pool variable must carry the same precedence (it is one variable)
fn normalise_shared(ops: &mut Vec<OpSpec>) {
    let mut seen: std::collections::HashMap<String, Option<i64>> = Default::default();
    for o in ops.iter_mut() {
        let id = o.id();
        match seen.get(&id) {
            Some(p) => o.prec = *p,
            None => {
                seen.insert(id, o.prec);
            }
        }
    }
}

fn src_case_from(rng: &mut Rng, ops: &[OpSpec], mode: u64) -> SrcCase {
    // mode 0 direct, 1 section applied with the right number of args, 2 ill-formed stream
    let n = ops.len();
    let mut first = Opd::E(0);
    let mut rest: Vec<(Opr, Opd)> = ops
        .iter()
        .enumerate()
        .map(|(i, o)| (if rng.chance(1, 3) { Opr::B(o.clone()) } else { Opr::O(o.clone()) }, Opd::E(i + 1)))
        .collect();
    let mut args = None;
    if mode >= 1 {
        // choose holes
        let mut holes = vec![];
        for i in 0..=n {
            if rng.chance(1, 3) {
                holes.push(i);
            }
        }
        if holes.is_empty() {
            holes.push(rng.below(n as u64 + 1) as usize);
        }
        for h in &holes {
            if *h == 0 {
                first = Opd::U
            } else {
                rest[*h - 1].1 = Opd::U
            }
        }
        let mut a: Vec<usize> = holes.clone();
        if mode == 2 && ops.iter().any(|o| o.fail == 2) {
            // (a panicking operator may run before the arity error is noticed: not a case the
            // property speaks about)
        } else if mode == 2 {
            match rng.below(4) {
                0 => {
                    a.pop();
                }
                1 => a.push(n + 1),
                2 => {
                    // a throwing operand somewhere
                    let k = rng.below(n as u64) as usize;
                    if let Opd::E(i) = rest[k].1.clone() {
                        rest[k].1 = Opd::T(i)
                    }
                }
                _ => {
                    let k = rng.below(n as u64) as usize;
                    rest[k].0 = Opr::X(k)
                }
            }
        }
        args = Some(a);
        if mode == 2 && rng.chance(1, 4) {
            args = None; // an unapplied section: the value is a function
        }
    } else if mode == 0 && rng.chance(1, 12) && !ops.iter().any(|o| o.fail == 2) {
        // ill-formed direct chains
        let k = rng.below(n as u64) as usize;
        if rng.chance(1, 2) {
            if let Opd::E(i) = rest[k].1.clone() {
                rest[k].1 = Opd::T(i)
            }
        } else {
            rest[k].0 = Opr::X(k)
        }
    }
    SrcCase { first, rest, args, assign: true, salt: rng.next() }
}

// ---------------------------------------------------------------------------------------------
// real builtins: infix chain vs call-form rendering of the predicted tree
fn sexp_to_call(s: &str, operands: &[String]) -> Option<String> {
    // s-expression: (name arg…) | #i
    fn parse(t: &[String], i: &mut usize, operands: &[String]) -> Option<String> {
        if *i >= t.len() {
            return None;
        }
        let tok = t[*i].clone();
        *i += 1;
        if tok == "(" {
            let name = t.get(*i)?.clone();
            *i += 1;
            let mut args = vec![];
            while *i < t.len() && t[*i] != ")" {
                args.push(parse(t, i, operands)?);
            }
            *i += 1;
            if name.contains(',') {
                // merged comparison a,b,c over n+1 operands: conjunction of the pairwise comparisons
                let names: Vec<&str> = name.split(',').collect();
                if names.len() + 1 != args.len() {
                    return None;
                }
                // all operands are evaluated (once, in order) before the comparisons run
                let vars: Vec<String> = (0..args.len()).map(|k| format!("cv{}", k)).collect();
                let parts: Vec<String> =
                    (0..names.len()).map(|k| format!("(({})(cv{}, cv{}))", names[k], k, k + 1)).collect();
                Some(format!("((\\{} -> {})({}))", vars.join(", "), parts.join(" and "), args.join(", ")))
            } else {
                Some(format!("(({})({}))", name, args.join(", ")))
            }
        } else if let Some(n) = tok.strip_prefix('#') {
            operands.get(n.parse::<usize>().ok()?).map(|s| format!("({})", s))
        } else {
            None
        }
    }
    let spaced = s.replace('(', " ( ").replace(')', " ) ");
    let toks: Vec<String> = spaced.split_whitespace().map(|x| x.to_string()).collect();
    let mut i = 0;
    let r = parse(&toks, &mut i, operands)?;
    if i == toks.len() {
        Some(r)
    } else {
        None
    }
}

struct RealCase {
    operands: Vec<String>,
    ops: Vec<String>,
}
impl RealCase {
    fn infix(&self) -> String {
        let mut s = format!("({})", self.operands[0]);
        for (i, o) in self.ops.iter().enumerate() {
            s.push_str(&format!(" {} ({})", o, self.operands[i + 1]));
        }
        s
    }
    fn request(&self) -> String {
        let mut t = vec!["real 0".to_string()];
        for (i, o) in self.ops.iter().enumerate() {
            t.push(o.clone());
            t.push((i + 1).to_string());
        }
        t.join(" ")
    }
}

fn gen_real(rng: &mut Rng) -> RealCase {
    let fam = rng.below(5);
    let n = 1 + rng.below(6) as usize;
    let mut ops = vec![];
    let mut operands = vec![];
    match fam {
        0 | 1 => {
            // numbers: arithmetic, comparisons, list builders; at most two power-like operators
            let arith = ["+", "-", "*", "/", "%", "//", "-", "/", "|", "&", "max", "min", "gcd"];
            let cmp = ["<", "<=", "==", "!=", ">", ">=", "≤", "≥"];
            let build = ["..", "=>", "+.", ".+"];
            let mut power = 0;
            for _ in 0..n {
                let o = match rng.below(10) {
                    0 | 1 | 2 | 3 => *rng.pick(&arith),
                    4 | 5 => *rng.pick(&cmp),
                    6 if fam == 1 => *rng.pick(&build),
                    7 | 8 if power < 2 => {
                        power += 1;
                        *rng.pick(&["^", "^", "<<", ">>"])
                    }
                    _ => *rng.pick(&arith),
                };
                ops.push(o.to_string());
            }
            for _ in 0..=n {
                operands.push(format!("{}", 1 + rng.below(5)));
            }
        }
        2 => {
            // ranges: a til/to b [by c] inside arithmetic
            let k = rng.below(n as u64) as usize;
            for i in 0..n {
                let o = if i == k {
                    *rng.pick(&["til", "to"])
                } else if i == k + 1 && rng.chance(2, 3) {
                    "by"
                } else {
                    *rng.pick(&["+", "-", "*", "max", "min", "by"])
                };
                ops.push(o.to_string());
            }
            for _ in 0..=n {
                operands.push(format!("{}", 1 + rng.below(9)));
            }
        }
        3 => {
            // lists: zip / ** / ++ / with / ziplongest / *** / &&& ...
            let l = ["zip", "zip", "**", "**", "×", "++", "ziplongest", "with", "lazy_zip", "merge", ".+", "+.", "=>", ".."];
            for _ in 0..n {
                ops.push(rng.pick(&l).to_string());
            }
            for i in 0..=n {
                if i > 0 && ops[i - 1] == "with" {
                    operands.push(rng.pick(&["+", "max", "L"]).to_string());
                } else {
                    let len = 1 + rng.below(3);
                    let items: Vec<String> = (0..len).map(|_| format!("{}", 1 + rng.below(9))).collect();
                    operands.push(format!("[{}]", items.join(",")));
                }
            }
        }
        _ => {
            // fold/scan … from, replace … with, split … by
            if rng.chance(1, 2) {
                let f = *rng.pick(&["fold", "scan"]);
                ops.push(f.to_string());
                operands.push("[5,3,2]".to_string());
                operands.push(rng.pick(&["-", "+", "L"]).to_string());
                if rng.chance(2, 3) {
                    ops.push("from".to_string());
                    operands.push("100".to_string());
                }
                while ops.len() < n {
                    ops.push(rng.pick(&["++", "+.", "max", "from"]).to_string());
                    operands.push(rng.pick(&["[1]", "7", "[2,3]"]).to_string());
                }
            } else {
                ops.push(rng.pick(&["replace", "split", "rsplit"]).to_string());
                operands.push("\"abcabc\"".to_string());
                operands.push("\"b\"".to_string());
                let second = if ops[0] == "replace" { "with" } else { "by" };
                if rng.chance(2, 3) {
                    ops.push(second.to_string());
                    operands.push(if second == "with" { "\"xy\"".to_string() } else { "2".to_string() });
                }
                while ops.len() < n {
                    ops.push(rng.pick(&["$", "++", "with", "by", "=="]).to_string());
                    operands.push(rng.pick(&["\"q\"", "1", "\"b\""]).to_string());
                }
            }
        }
    }
    RealCase { operands, ops }
}

// ---------------------------------------------------------------------------------------------
fn main() {
    let args = parse_args();
    install_quiet_panic_hook();
    let mut rep = Report::new("C03", &args);
    rep.rule = "operators are tree-building builtins (value = grouping, log = evaluation/application order); \
                exhaustive over chain length x weak orders of precedence (ties, NaN) x associativities x \
                chain classes (plain / self-chaining / head+preposition), random up to 12 operators incl. \
                failing operators; each driven through ChainEvaluator directly, through parse+evaluate as a \
                direct chain (precedences assigned at run time) and as an underscore section applied \
                later; real chainable builtins against the call-form of the predicted tree; a case is \
                non-trivial when it has >= 2 operators; distinct = distinct requests"
        .into();
    let thorough = args.tier == "thorough";
    let mut w = World::new();

    // ---- replay --------------------------------------------------------------------------------
    if let Some(path) = &args.replay {
        let text = std::fs::read_to_string(path).expect("replay file");
        for line in text.lines() {
            if let Some(rest) = line.strip_prefix("input: ") {
                if let Some(src) = rest.strip_prefix("src: ") {
                    // make sure every pool operator mentioned exists
                    for word in src.split(|c: char| !c.is_alphanumeric()) {
                        if let Some(o) = parse_pool_id(word) {
                            w.ensure(&o, None);
                        } else if let Some(o) = word.strip_prefix('o').and_then(parse_pool_id) {
                            // pristine copy used by the effectful cases
                            if w.registered.insert(word.to_string()) {
                                w.interp
                                    .env
                                    .borrow_mut()
                                    .insert(
                                        word.to_string(),
                                        ObjType::Any,
                                        Obj::Func(Func::Builtin(Rc::new(o.treeop())), Precedence(0.0, assoc_of(o.rassoc))),
                                    )
                                    .ok();
                            }
                        }
                    }
                    log_take();
                    let out = w.interp.eval(src);
                    println!("rust: {}   [{}]", outcome_with_log(&out, true), out.detail());
                } else {
                    println!("input: {}", rest);
                }
            }
            if let Some(rest) = line.strip_prefix("request: ") {
                if rest.starts_with("ce ") {
                    let toks: Vec<&str> = rest.split(' ').collect();
                    let first: usize = toks[1].parse().unwrap_or(0);
                    let mut pairs = vec![];
                    let mut i = 2;
                    while i + 1 < toks.len() {
                        if let Some(o) = parse_op_token(toks[i]) {
                            pairs.push((o, toks[i + 1].parse().unwrap_or(0)));
                        }
                        i += 2;
                    }
                    println!("rust (ChainEvaluator driven directly): {}", run_ce(&mut w, first, &pairs, 1));
                }
                let r = run_driver(&args.driver, &[rest.to_string()]);
                println!("model (impl <tab> spec): {}", r[0]);
            }
        }
        return;
    }

    let mut rng = Rng::new(args.seed);
    let mut requests: Vec<String> = vec![];
    let mut rust: Vec<String> = vec![];
    let mut inputs: Vec<String> = vec![];
    let mut keys: Vec<String> = vec![];
    let mut nontrivial: Vec<bool> = vec![];

    // ---- 1. ChainEvaluator driven directly: exhaustive + random ---------------------------------
    let mut ce_sets: Vec<Vec<OpSpec>> = vec![];
    for n in 1..=3 {
        ce_sets.extend(exhaustive(n, 4));
    }
    ce_sets.extend(exhaustive(4, 2));
    if thorough {
        ce_sets.extend(exhaustive(4, 4));
        ce_sets.extend(exhaustive(5, 2));
    }
    // corpus first
    let mut corpus_sets: Vec<Vec<OpSpec>> = vec![];
    if let Ok(rd) = std::fs::read_dir("/verif/corpus/C03") {
        let mut files: Vec<_> = rd.filter_map(|e| e.ok()).map(|e| e.path()).collect();
        files.sort();
        for f in files {
            if f.extension().map(|e| e == "ops").unwrap_or(false) {
                for line in std::fs::read_to_string(&f).unwrap_or_default().lines() {
                    let line = line.strip_prefix("request: ").unwrap_or(line);
                    if let Some(rest) = line.strip_prefix("ce ") {
                        let toks: Vec<&str> = rest.split(' ').collect();
                        let mut ops = vec![];
                        let mut i = 1;
                        while i + 1 < toks.len() + 1 && i < toks.len() {
                            if let Some(o) = parse_op_token(toks[i]) {
                                ops.push(o);
                            }
                            i += 2;
                        }
                        if !ops.is_empty() {
                            corpus_sets.push(ops);
                        }
                    }
                }
            }
        }
    }
    rep.arm_n("corpus cases", corpus_sets.len() as u64);
    ce_sets.splice(0..0, corpus_sets);
    let n_random_ce = if thorough { 200_000 } else { 12_000 };
    for i in 0..n_random_ce {
        let n = 1 + rng.below(12) as usize;
        let mut ops = random_ops(&mut rng, n, i % 4 == 0);
        normalise_shared(&mut ops);
        ce_sets.push(ops);
    }
    for (ci, ops) in ce_sets.iter().enumerate() {
        let pairs: Vec<(OpSpec, usize)> = ops.iter().enumerate().map(|(i, o)| (o.clone(), i + 1)).collect();
        let r = run_ce(&mut w, 0, &pairs, ci as u64);
        let req = ce_request(0, &pairs);
        keys.push(format!("ce:n={}{}", ops.len().min(6), if ops.iter().any(|o| o.fail > 0) { ":failing" } else { "" }));
        inputs.push(format!("ChainEvaluator new/give/finish\nrequest: {}", req));
        nontrivial.push(ops.len() >= 2);
        requests.push(req);
        rust.push(r);
    }
    rep.arm_n("ce cases", ce_sets.len() as u64);

    // ---- 2. parse + evaluate: direct chains and sections ----------------------------------------
    let mut src_cases: Vec<SrcCase> = vec![];
    // every exhaustive configuration up to 3 operators as a direct chain (and as a section)
    let mut small: Vec<Vec<OpSpec>> = vec![];
    for n in 1..=3 {
        small.extend(exhaustive(n, 4));
    }
    let stride_small = if thorough { 1 } else { 2 };
    for (i, ops) in small.iter().enumerate() {
        if i % stride_small == 0 || ops.len() < 3 {
            src_cases.push(src_case_from(&mut rng, ops, 0));
        }
        if i % (3 * stride_small) == 0 {
            src_cases.push(src_case_from(&mut rng, ops, 1));
        }
    }
    let four = exhaustive(4, 2);
    let stride4 = if thorough { 1 } else { 9 };
    for (i, ops) in four.iter().enumerate() {
        if i % stride4 == 0 {
            src_cases.push(src_case_from(&mut rng, ops, (i as u64 / stride4 as u64) % 2));
        }
    }
    let n_random_src = if thorough { 120_000 } else { 7_000 };
    for i in 0..n_random_src {
        let n = 1 + rng.below(if i % 3 == 0 { 12 } else { 6 }) as usize;
        let mut ops = random_ops(&mut rng, n, i % 5 == 0);
        normalise_shared(&mut ops);
        let mode = match rng.below(20) {
            0..=8 => 0,
            9..=16 => 1,
            _ => 2,
        };
        src_cases.push(src_case_from(&mut rng, &ops, mode));
    }
    for c in &src_cases {
        let (src, req) = render_src(&mut w, c);
        log_take();
        let out = w.interp.eval(&src);
        let r = outcome_with_log(&out, true);
        let nops = c.rest.len();
        let kind = match (&c.args, c.first.is_hole() || c.rest.iter().any(|p| p.1.is_hole())) {
            (None, false) => "chain",
            (None, true) => "section-value",
            (Some(_), _) => "section",
        };
        rep.arm(&format!("src:{}:n={}", kind, nops.min(6)));
        keys.push(format!("src:{}", kind));
        inputs.push(format!("src: {}\nrequest: {}", src, req));
        nontrivial.push(nops >= 2);
        requests.push(req);
        rust.push(r);
    }

    // ---- 3. precedence given at registration / swapped at run time (fresh interpreters) ---------
    let n_fresh = if thorough { 3000 } else { 300 };
    for i in 0..n_fresh {
        let n = 2 + rng.below(4) as usize;
        let mut ops = random_ops(&mut rng, n, false);
        for (k, o) in ops.iter_mut().enumerate() {
            o.pos = k;
        }
        let vals = rank_values(&ops, i as u64);
        let mut fw = World::new();
        // register with the precedence of ANOTHER operator, then swap / assign to reach the target
        let swap = n >= 2 && rng.chance(1, 2) && ops[0].prec.is_some() && ops[1].prec.is_some();
        for (k, o) in ops.iter().enumerate() {
            let target = match o.prec {
                None => f64::NAN,
                Some(r) => vals[&r].0,
            };
            let p = if swap && k < 2 {
                match ops[1 - k].prec {
                    None => f64::NAN,
                    Some(r) => vals[&r].0,
                }
            } else {
                target
            };
            fw.ensure(o, Some(p));
        }
        let chain: String = {
            let mut s = "lg(0)".to_string();
            for (k, o) in ops.iter().enumerate() {
                s.push_str(&format!(" {} lg({})", o.id(), k + 1));
            }
            s
        };
        // a third way: exchange the two function VALUES (`swap f, g`): each variable then holds the
        // other operator together with the precedence it carries
        let swap_values = !swap && n >= 2 && rng.chance(1, 2);
        let src = if swap {
            format!("swap {}::precedence, {}::precedence; {}", ops[0].id(), ops[1].id(), chain)
        } else if swap_values {
            format!("swap {}, {}; {}", ops[0].id(), ops[1].id(), chain)
        } else {
            chain
        };
        let mut toks = vec!["E:0".to_string()];
        for (k, o) in ops.iter().enumerate() {
            let shown = if swap_values && k < 2 { &ops[1 - k] } else { o };
            toks.push(format!("O:{}", shown.token()));
            toks.push(format!("E:{}", k + 1));
        }
        let req = format!("src - {}", toks.join(" "));
        log_take();
        let out = fw.interp.eval(&src);
        rust.push(outcome_with_log(&out, true));
        let kname = if swap { "src:swap-precedence" } else if swap_values { "src:swap-values" } else { "src:registered" };
        keys.push(kname.into());
        rep.arm(kname);
        inputs.push(format!("src(fresh interpreter, precedences at registration): {}\nrequest: {}", src, req));
        nontrivial.push(true);
        requests.push(req);
    }

    // ---- 3b. operands with EFFECTS on the operators of their own chain ---------------------------
    // (reassign an operator variable, set its ::precedence, swap two operators / two precedences,
    // between repeated and between different operators): every operator must be looked up at its
    // position, after the operand to its left has been evaluated
    {
        let mut wx = World::new();
        let n_eff = if thorough { 80_000 } else { 5_000 };
        for ci in 0..n_eff {
            let k = 2 + rng.below(2) as usize;
            let mut vars = random_ops(&mut rng, k, false);
            for (j, v) in vars.iter_mut().enumerate() {
                v.pos = j;
                v.prec = if rng.chance(1, 12) { None } else { Some(rng.below(5) as i64) };
            }
            let n = if ci % 9 == 0 { 1 } else { 2 + rng.below(5) as usize };
            let section = ci % 5 == 4;
            // operator positions: runs of one identifier are the interesting shape
            let mut opvars: Vec<usize> = vec![];
            for i in 0..n {
                if i > 0 && rng.chance(3, 5) {
                    opvars.push(opvars[i - 1]);
                } else {
                    opvars.push(rng.below(k as u64) as usize);
                }
            }
            let name = |j: usize| vars[j].id();
            let mut prefix = String::new();
            for v in &vars {
                wx.ensure(v, None);
                let pristine = format!("o{}", v.id());
                if !wx.registered.contains(&pristine) {
                    wx.registered.insert(pristine.clone());
                    wx.interp
                        .env
                        .borrow_mut()
                        .insert(
                            pristine.clone(),
                            ObjType::Any,
                            Obj::Func(Func::Builtin(Rc::new(v.treeop())), Precedence(0.0, assoc_of(v.rassoc))),
                        )
                        .ok();
                }
                let p = match v.prec {
                    None => "(0.0/0.0)".to_string(),
                    Some(r) => r.to_string(),
                };
                prefix.push_str(&format!("{} = {}; {}::precedence = {}; ", v.id(), pristine, v.id(), p));
            }
            let mut toks: Vec<String> = vec![];
            let mut chain = String::new();
            let mut holes: Vec<usize> = vec![];
            for i in 0..=n {
                if i > 0 {
                    let x = name(opvars[i - 1]);
                    if rng.chance(1, 4) {
                        chain.push_str(&format!(" `lgo({}, {})` ", 2 * i - 1, x));
                        toks.push(format!("W:{}", x));
                    } else {
                        chain.push_str(&format!(" {} ", x));
                        toks.push(format!("V:{}", x));
                    }
                }
                // the operand: plain, with an effect, or a hole
                let effect = rng.chance(1, 2);
                if section && !effect && rng.chance(1, 2) {
                    chain.push('_');
                    toks.push("U".to_string());
                    holes.push(i);
                } else if effect {
                    // prefer targeting the operator that stands to the right of this operand
                    let x = if i < n && rng.chance(2, 3) { opvars[i] } else { rng.below(k as u64) as usize };
                    let mut y = rng.below(k as u64) as usize;
                    if y == x {
                        y = (x + 1) % k;
                    }
                    let (stmt, tok) = match rng.below(9) {
                        5 => {
                            // a completed op-assignment on the precedence
                            let r = rng.below(4) as i64;
                            match rng.below(4) {
                                0 => (format!("{}::precedence += {}", name(x), r), format!("oa-{}-P{}", name(x), r)),
                                1 => (format!("{}::precedence -= {}", name(x), r), format!("oa-{}-M{}", name(x), r)),
                                2 => (format!("{}::precedence .= addk{}", name(x), r), format!("oa-{}-P{}", name(x), r)),
                                _ => {
                                    let m = rng.below(3) as i64;
                                    (format!("{}::precedence *= {}", name(x), m), format!("om-{}-P{}", name(x), m))
                                }
                            }
                        }
                        6 | 7 => {
                            // an op-assignment that cannot complete, caught: nothing was assigned
                            let body = match rng.below(4) {
                                0 => format!("{}::precedence //= 0", name(x)),
                                1 => format!("{}::precedence += \"s\"", name(x)),
                                2 => format!("{}::precedence thrower= 1", name(x)),
                                _ => format!("{}::precedence strer= 1", name(x)),
                            };
                            (format!("(try {} catch _ -> null)", body), format!("of-{}", name(x)))
                        }
                        8 => {
                            // the operator function of the op-assignment evaluates a chain over the
                            // operators of this chain while the op-assignment is under way
                            let z = rng.below(k as u64) as usize;
                            let r = rng.below(7) as i64 - 3;
                            let pb = format!("pb{}x{}", ci, i);
                            prefix.push_str(&format!(
                                "{} := \\p, d -> (lgm(0); lgv(100 {} 101 {} 102); p + d); ",
                                pb,
                                name(y),
                                name(z)
                            ));
                            (
                                format!("{}::precedence {}= {}", name(x), pb, if r < 0 { format!("(0-{})", -r) } else { r.to_string() }),
                                format!("ob-{}-{}{}-{}-{}", name(x), if r < 0 { "M" } else { "P" }, r.abs(), name(y), name(z)),
                            )
                        }
                        0 | 1 => {
                            let r = rng.below(7) as i64 - 1;
                            if rng.chance(1, 10) {
                                (format!("{}::precedence = (0.0/0.0)", name(x)), format!("p-{}-n", name(x)))
                            } else if r < 0 {
                                (format!("{}::precedence = (0-1)", name(x)), format!("p-{}--1", name(x)))
                            } else {
                                (format!("{}::precedence = {}", name(x), r), format!("p-{}-{}", name(x), r))
                            }
                        }
                        2 => (format!("{} = {}", name(x), name(y)), format!("a-{}-{}", name(x), name(y))),
                        3 => (format!("swap {}, {}", name(x), name(y)), format!("w-{}-{}", name(x), name(y))),
                        _ => (
                            format!("swap {}::precedence, {}::precedence", name(x), name(y)),
                            format!("q-{}-{}", name(x), name(y)),
                        ),
                    };
                    rep.arm(&format!("srcs:effect:{}", tok.split('-').next().unwrap_or("?")));
                    chain.push_str(&format!("({}; lg({}))", stmt, i));
                    toks.push(format!("S:{}:{}", i, tok));
                } else {
                    chain.push_str(&format!("lg({})", i));
                    toks.push(format!("E:{}", i));
                }
            }
            let (src, nargs) = if section && !holes.is_empty() {
                for h in &holes {
                    toks.push(format!("A:{}", h));
                }
                (
                    format!("{}({})({})", prefix, chain, holes.iter().map(|h| format!("lg({})", h)).collect::<Vec<_>>().join(", ")),
                    holes.len().to_string(),
                )
            } else {
                (format!("{}{}", prefix, chain), "-".to_string())
            };
            let mut envt = vec![];
            for v in &vars {
                envt.push(v.id());
                envt.push(v.token());
            }
            let req = format!("srcs {} {} {} {}", nargs, k, envt.join(" "), toks.join(" "));
            log_take();
            let out = wx.interp.eval(&src);
            rust.push(outcome_with_log(&out, true));
            let kname = if nargs == "-" { "srcs:chain" } else { "srcs:section" };
            keys.push(kname.into());
            rep.arm(&format!("{}:n={}", kname, n));
            inputs.push(format!("src: {}\nrequest: {}", src, req));
            nontrivial.push(n >= 2);
            requests.push(req);
        }
    }

    // ---- the model ---------------------------------------------------------------------------------
    let resp = run_driver(&args.driver, &requests);
    for i in 0..requests.len() {
        let parts: Vec<&str> = resp[i].split('\t').collect();
        rep.case(&requests[i], nontrivial[i]);
        rep.outcome(if rust[i].starts_with("ok") { "ok" } else { rust[i].as_str() });
        if parts.len() < 2 {
            rep.judge("driver", &inputs[i], &rust[i], &resp[i], &resp[i]);
            continue;
        }
        rep.judge(&keys[i], &inputs[i], &rust[i], parts[0], parts[1]);
    }

    // ---- 4. real builtins -------------------------------------------------------------------------------
    let n_real = if thorough { 40_000 } else { 3_000 };
    let mut real_cases: Vec<RealCase> = vec![];
    // the documented examples first
    for (ops, opds) in [
        (vec!["<", "<"], vec!["1", "2", "3"]),
        (vec!["+", "*", "<", "<=", "^", "^"], vec!["1", "2", "3", "4", "5", "2", "3"]),
        (vec!["zip", "zip"], vec!["[1,2]", "[3,4]", "[5,6]"]),
        (vec!["**", "**"], vec!["[1,2]", "[3]", "[4,5]"]),
        (vec!["til", "by"], vec!["1", "10", "3"]),
        (vec!["fold", "from"], vec!["[1,2,3]", "-", "10"]),
        (vec!["replace", "with"], vec!["\"abc\"", "\"b\"", "\"x\""]),
        (vec!["-", "-"], vec!["9", "4", "3"]),
        (vec!["^", "^"], vec!["2", "3", "2"]),
        (vec!["<<", "+"], vec!["1", "2", "3"]),
        (vec![".+", ".+"], vec!["1", "2", "[3]"]),
        (vec!["<", "<", "<="], vec!["1", "2", "3", "3"]),
        (vec!["==", "==", "!="], vec!["1", "1", "1", "2"]),
        (vec![">", ">", "==", "<"], vec!["3", "2", "1", "1", "5"]),
        (vec!["<", "<", "+", "<="], vec!["1", "2", "1", "2", "3"]),
    ] {
        real_cases.push(RealCase {
            ops: ops.iter().map(|s| s.to_string()).collect(),
            operands: opds.iter().map(|s| s.to_string()).collect(),
        });
    }
    for _ in 0..n_real {
        real_cases.push(gen_real(&mut rng));
    }
    let real_reqs: Vec<String> = real_cases.iter().map(|c| c.request()).collect();
    let real_resp = run_driver(&args.driver, &real_reqs);
    let ri = Interp::new();
    let mut informative = 0u64;
    for (c, resp) in real_cases.iter().zip(real_resp.iter()) {
        let parts: Vec<&str> = resp.split('\t').collect();
        let infix = c.infix();
        rep.case(&format!("real: {}", infix), c.ops.len() >= 2);
        rep.arm(&format!("real:n={}", c.ops.len()));
        if parts.len() < 2 || !parts[0].starts_with("ok ") || !parts[1].starts_with("ok ") {
            rep.judge("real:driver", &format!("src: {}\nrequest: {}", infix, c.request()), "?", resp, resp);
            continue;
        }
        let r = ri.eval(&infix).class();
        let eval_tree = |sexp: &str| -> String {
            match sexp_to_call(sexp, &c.operands) {
                Some(src) => ri.eval(&src).class(),
                None => format!("unrenderable {}", sexp),
            }
        };
        let im = eval_tree(&parts[0][3..]);
        let sp = if parts[1] == parts[0] { im.clone() } else { eval_tree(&parts[1][3..]) };
        if r.starts_with("ok") {
            informative += 1;
        }
        rep.outcome(if r.starts_with("ok") { "real:ok" } else { "real:throw" });
        let key = format!("real:{}", c.ops.iter().map(|o| if o.chars().all(|ch| ch.is_alphanumeric()) { o.as_str() } else { "sym" }).collect::<Vec<_>>().join("."));
        let key = if key.len() > 40 { key[..40].to_string() } else { key };
        rep.judge(
            &key,
            &format!("src: {}\nrequest: {}\npredicted tree: {}", infix, c.request(), parts[1]),
            &r,
            &im,
            &sp,
        );
    }
    rep.notes.push(format!("real-builtin chains that evaluated to a value (informative): {}", informative));

    // ---- 4b. LvalueChainEvaluator: destructuring chains over `.+` (right-assoc) and `+.` ----------------
    {
        let n_lv = if thorough { 4000 } else { 400 };
        let mut reqs = vec![];
        let mut cases = vec![];
        for ci in 0..n_lv {
            let n = 1 + rng.below(5) as usize;
            let ops: Vec<String> = (0..n).map(|_| rng.pick(&[".+", "+.", ".+", "+.", ".+", "+.", "=>"]).to_string()).collect();
            let vars: Vec<String> = (0..=n).map(|i| format!("dv{}x{}", ci, i)).collect();
            // nested lists, so that an element can itself be taken apart by a nested pattern
            let len = 1 + rng.below(n as u64 + 3) as usize;
            let rhs = format!(
                "[{}]",
                (1..=len)
                    .map(|k| format!("[[{}1,{}2,{}3],[{}4,{}5],[{}6]]", k, k, k, k, k, k))
                    .collect::<Vec<_>>()
                    .join(",")
            );
            let mut t = vec!["real 0".to_string()];
            for (i, o) in ops.iter().enumerate() {
                t.push(o.clone());
                t.push((i + 1).to_string());
            }
            reqs.push(t.join(" "));
            cases.push((ops, vars, rhs));
        }
        let resp = run_driver(&args.driver, &reqs);
        fn lv_render(sexp: &str, vars: &[String]) -> Option<String> {
            let spaced = sexp.replace('(', " ( ").replace(')', " ) ");
            let toks: Vec<&str> = spaced.split_whitespace().collect();
            fn go(t: &[&str], i: &mut usize, vars: &[String]) -> Option<String> {
                let tok = *t.get(*i)?;
                *i += 1;
                if tok == "(" {
                    let name = *t.get(*i)?;
                    *i += 1;
                    let mut a = vec![];
                    while *i < t.len() && t[*i] != ")" {
                        a.push(go(t, i, vars)?);
                    }
                    *i += 1;
                    Some(format!("({})({})", name, a.join(", ")))
                } else {
                    vars.get(tok.strip_prefix('#')?.parse::<usize>().ok()?).cloned()
                }
            }
            let mut i = 0;
            go(&toks, &mut i, vars)
        }
        for (k, ((ops, vars, rhs), r)) in cases.iter().zip(resp.iter()).enumerate() {
            let parts: Vec<&str> = r.split('\t').collect();
            let mut infix = vars[0].clone();
            for (i, o) in ops.iter().enumerate() {
                infix.push_str(&format!(" {} {}", o, vars[i + 1]));
            }
            let show = format!("[{}]", vars.join(", "));
            let src = format!("{} := {}; {}", infix, rhs, show);
            rep.case(&format!("lvalue: {}", src), ops.len() >= 2);
            rep.arm(&format!("lvalue:n={}", ops.len()));
            if parts.len() < 2 || !parts[0].starts_with("ok ") || !parts[1].starts_with("ok ") {
                rep.judge("lvalue:driver", &format!("src: {}\nrequest: {}", src, reqs[k]), "?", r, r);
                continue;
            }
            let rust_o = ri.eval(&src).class();
            // the call-form patterns declare the same names again: evaluate each in its own scope
            let eval_tree = |sexp: &str| -> String {
                match lv_render(sexp, vars) {
                    Some(pat) => Interp::new().eval(&format!("{} := {}; {}", pat, rhs, show)).class(),
                    None => format!("unrenderable {}", sexp),
                }
            };
            let im = eval_tree(&parts[0][3..]);
            let sp = if parts[1] == parts[0] { im.clone() } else { eval_tree(&parts[1][3..]) };
            rep.outcome(if rust_o.starts_with("ok") { "lvalue:ok" } else { "lvalue:throw" });
            rep.judge("lvalue", &format!("src: {}\nrequest: {}\npredicted tree: {}", src, reqs[k], parts[1]), &rust_o, &im, &sp);
        }
    }

    // ---- 5. generated tables against the running interpreter -------------------------------------------
    {
        let names_line = run_driver(&args.driver, &["names".to_string()]);
        let names: Vec<String> = names_line[0].split(' ').map(|s| s.to_string()).collect();
        let env = ri.env.borrow();
        let mut table_names: std::collections::HashSet<String> = Default::default();
        let reqs: Vec<String> = names.iter().map(|n| format!("prec {}", n)).collect();
        let resp = run_driver(&args.driver, &reqs);
        for (n, r) in names.iter().zip(resp.iter()) {
            table_names.insert(n.clone());
            let parts: Vec<&str> = r.split('\t').collect();
            let (model, specm) = if parts.len() == 3 { (parts[0].to_string(), parts[1].to_string()) } else { (r.clone(), r.clone()) };
            let real = match env.vars.get(n) {
                Some((_, cell)) => match &*cell.borrow() {
                    Obj::Func(Func::Builtin(_), Precedence(p, a)) => format!(
                        "ok {} {}",
                        if p.fract() == 0.0 { format!("{}", *p as i64) } else { format!("{}", p) },
                        match a {
                            Assoc::Left => "L",
                            Assoc::Right => "R",
                        }
                    ),
                    _ => "not-a-builtin".to_string(),
                },
                None => "unbound".to_string(),
            };
            rep.case(&format!("prec {}", n), false);
            rep.judge(&format!("table:{}", n), &format!("precedence/associativity of builtin {}\nrequest: prec {}", n, n), &real, &model, &specm);
        }
        // completeness: every builtin function bound in a fresh environment is in the table
        let mut missing: Vec<String> = env
            .vars
            .iter()
            .filter(|(k, (_, cell))| matches!(&*cell.borrow(), Obj::Func(Func::Builtin(_), _)) && !table_names.contains(*k))
            .map(|(k, _)| k.clone())
            .collect();
        missing.sort();
        rep.arm_n("table rows checked", names.len() as u64);
        if !missing.is_empty() {
            rep.judge(
                "table:missing",
                &format!("builtins bound by initialize() but absent from Generated/C03Tables: {}", missing.join(" ")),
                "bound",
                "absent",
                "absent",
            );
        }
    }
    rep.write(&args.out);
}

trait Hole {
    fn is_hole(&self) -> bool;
}
impl Hole for Opd {
    fn is_hole(&self) -> bool {
        matches!(self, Opd::U)
    }
}
trait ArmN {
    fn arm_n(&mut self, name: &str, n: u64);
}
impl ArmN for Report {
    fn arm_n(&mut self, name: &str, n: u64) {
        *self.arms.entry(name.to_string()).or_insert(0) += n;
    }
}

/// `tL0f0x3` -> OpSpec (precedence unknown)
fn parse_pool_id(s: &str) -> Option<OpSpec> {
    let b = s.as_bytes();
    if b.len() < 7 || b[0] != b't' || (b[1] != b'L' && b[1] != b'R') || b[3] != b'f' || b[5] != b'x' {
        return None;
    }
    let cfg = (b[2] as char).to_digit(10)? as usize;
    let fail = (b[4] as char).to_digit(10)?;
    let pos: usize = s[6..].parse().ok()?;
    if cfg >= CONFIGS.len() {
        return None;
    }
    Some(OpSpec { cfg, fail, prec: Some(0), rassoc: b[1] == b'R', pos })
}
fn parse_op_token(t: &str) -> Option<OpSpec> {
    let f: Vec<&str> = t.split(',').collect();
    if f.len() != 7 {
        return None;
    }
    let mut o = parse_pool_id(f[0])?;
    o.prec = if f[5] == "n" { None } else { Some(f[5].parse().ok()?) };
    o.rassoc = f[6] == "R";
    Some(o)
}
