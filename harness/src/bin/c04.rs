//! C04 correspondence: "operators are ordinary functions — all application forms agree".
//!
//! For every callable of the real global environment (every builtin registered by `initialize`,
//! every type, three probe builtins with separately written run/run1/run2, user closures, and
//! composites built with flip / <<< / >>> / on / partial application / sections) x argument
//! tuples from a pool of all value kinds x every surface form of application:
//!   rust = what the real interpreter computes for the form (parse + evaluate of the form's text
//!          in a scope where f, a, b, c are bound to the callable and the arguments);
//!   spec = what the real interpreter computes for the plain call `f(a, b)` — the reference the
//!          Spec (Lean `ApplySpec.refOf`) attaches to the form, with its side condition;
//!   impl = what the Lean Impl model predicts: a term over the builtin's opaque bodies
//!          (`O(b2:0;$0,$1)`), resolved by calling the named entry point of the REAL builtin
//!          object directly (`Builtin::run2` …), or a partial-application / section value that is
//!          rebuilt as a real `Func` and compared through `Display`.
//! rust != spec  => the property fails on the real code (kind "property");
//! rust == spec != impl => the model no longer mirrors the code (kind "correspondence").
//! The sweep runs in child processes (one per shard, with a timeout and an address-space limit)
//! so that one hang or abort does not kill the run.
use noulith::{
    evaluate, initialize, parse, Builtin, Env, Func, LocExpr, NErr, NRes, Obj, ObjType,
    Precedence, REnv, Rc, RefCell, Seq, TopEnv,
};
use std::collections::{BTreeMap, HashMap, HashSet};
use std::panic::{catch_unwind, AssertUnwindSafe};
use vharness::*;

// ---------------------------------------------------------------------------------------------
// outcomes and canonical text (functions are rendered through Display so that shapes compare)
#[derive(Clone)]
enum Out {
    Ok(Obj),
    Throw(String),
    Panic(String),
}
fn canon2(o: &Obj) -> String {
    match o {
        Obj::Func(f, _) => format!("fn:{}", f),
        Obj::Seq(Seq::List(v)) => format!("[{}]", v.iter().map(canon2).collect::<Vec<_>>().join(",")),
        Obj::Seq(Seq::Dict(d, def)) => {
            let mut items: Vec<(String, String)> =
                d.iter().map(|(k, v)| (canon(&noulith::key_to_obj(k.clone())), canon2(v))).collect();
            items.sort();
            let body = items.iter().map(|(k, v)| format!("{}:{}", k, v)).collect::<Vec<_>>().join(",");
            match def {
                None => format!("{{{}}}", body),
                Some(d) => format!("{{{}}}|d={}", body, canon2(d)),
            }
        }
        Obj::Seq(Seq::Stream(st)) => match st.len() {
            None => "stream-inf".into(),
            Some(n) if n > 5000 => format!("stream-big:{}", n),
            Some(_) => match st.force() {
                Ok(v) => format!("stream[{}]", v.iter().map(canon2).collect::<Vec<_>>().join(",")),
                Err(_) => "stream-err".into(),
            },
        },
        Obj::Instance(s, fields) => {
            format!("inst:{}({})", s.name, fields.iter().map(canon2).collect::<Vec<_>>().join(","))
        }
        other => canon(other),
    }
}
fn class(o: &Out) -> String {
    match o {
        Out::Ok(v) => match catch_unwind(AssertUnwindSafe(|| canon2(v))) {
            Ok(s) => format!("ok {}", s),
            Err(_) => "panic".into(),
        },
        Out::Throw(_) => "throw".into(),
        Out::Panic(_) => "panic".into(),
    }
}
fn detail(o: &Out) -> String {
    match o {
        Out::Ok(_) => class(o),
        Out::Throw(m) => format!("throw: {}", m.lines().next().unwrap_or("").chars().take(160).collect::<String>()),
        Out::Panic(m) => format!("panic: {}", m.chars().take(160).collect::<String>()),
    }
}
fn guard<F: FnOnce() -> NRes<Obj>>(f: F) -> Out {
    match catch_unwind(AssertUnwindSafe(f)) {
        Ok(Ok(o)) => Out::Ok(o),
        Ok(Err(NErr::Throw(o, _))) => Out::Throw(format!("{}", o)),
        Ok(Err(NErr::Break(n, _))) => Out::Throw(format!("break {}", n)),
        Ok(Err(NErr::Continue(n))) => Out::Throw(format!("continue {}", n)),
        Ok(Err(NErr::Return(_))) => Out::Throw("return".into()),
        Err(_) => Out::Panic("panic".into()),
    }
}

// ---------------------------------------------------------------------------------------------
// probe builtins: three separately written entry points, each reporting its arguments in order;
// which entry point was reached goes to a side log (fidelity diagnostic only)
thread_local! {
    static SPYLOG: std::cell::RefCell<Vec<&'static str>> = std::cell::RefCell::new(Vec::new());
}
#[derive(Debug, Clone)]
struct Spy {
    name: String,
}
impl Spy {
    fn res(&self, args: Vec<Obj>) -> NRes<Obj> {
        let mut v = vec![Obj::from(self.name.clone())];
        v.extend(args);
        Ok(Obj::list(v))
    }
}
impl Builtin for Spy {
    fn run(&self, _env: &REnv, args: Vec<Obj>) -> NRes<Obj> {
        SPYLOG.with(|l| l.borrow_mut().push("run"));
        self.res(args)
    }
    fn run1(&self, _env: &REnv, a: Obj) -> NRes<Obj> {
        SPYLOG.with(|l| l.borrow_mut().push("run1"));
        self.res(vec![a])
    }
    fn run2(&self, _env: &REnv, a: Obj, b: Obj) -> NRes<Obj> {
        SPYLOG.with(|l| l.borrow_mut().push("run2"));
        self.res(vec![a, b])
    }
    fn builtin_name(&self) -> &str {
        &self.name
    }
}

// ---------------------------------------------------------------------------------------------
#[derive(Clone)]
struct Leaf {
    name: String,
    /// 'B' builtin, 'C' closure, 'T' type
    kind: char,
    /// Rust struct according to the generated table (what the model is instantiated with)
    family: String,
    obj: Obj,
}
impl Leaf {
    fn tokens(&self, id: usize) -> String {
        match self.kind {
            'B' => format!("B {} {}", id, self.family),
            'C' => format!("C {}", id),
            'X' => format!("X {}", id),
            _ => format!("T {}", id),
        }
    }
}
#[derive(Clone)]
struct PoolVal {
    src: String,
    kind: &'static str,
    obj: Obj,
}
impl PoolVal {
    /// driver token for this value in argument position `i` (function arguments are closures
    /// numbered 100 + i)
    fn token(&self, i: usize) -> String {
        if self.kind == "func" {
            format!("F C {}", 100 + i)
        } else {
            format!("A {} {}", self.kind, i)
        }
    }
}

struct Ctx {
    top: REnv,
    cache: std::cell::RefCell<HashMap<String, Option<Box<LocExpr>>>>,
}
impl Ctx {
    fn new() -> Ctx {
        let mut env = Env::new(
            TopEnv { backrefs: Vec::new(), input: Box::new(std::io::empty()), output: Box::new(std::io::sink()) },
            false,
        );
        initialize(&mut env);
        for n in ["spy", "spyb", "spyc"] {
            env.insert_builtin(Spy { name: n.to_string() });
        }
        let top = Rc::new(RefCell::new(env));
        let ctx = Ctx { top, cache: std::cell::RefCell::new(HashMap::new()) };
        // user-defined functions of the global environment
        for src in [
            "cl1 := \\p -> [\"cl1\", p]",
            "cl2 := \\p, q -> [\"cl2\", p, q]",
            "cl3 := \\p, q, r -> [\"cl3\", p, q, r]",
            "clv := \\...ps -> [\"clv\", ps]",
            "clinc := \\p -> p + 1",
            "cllt := \\p, q -> p < q",
            // callables of the remaining `Func` variants (opaque in the model; their forms must still agree)
            "struct Pt (px, py)",
            "mcl2 := memoize(cl2)",
            "ixs := _[1]",
            "ixu := _[_]",
            "sls := _[1:]",
            "upd := _{0 = 9}",
            "par2 := cl1 *** cl1",
            "fan2 := cl1 &&& cl1",
            "lft := lift(1, cl2)",
        ] {
            match ctx.eval_in(&ctx.top, src) {
                Out::Ok(_) => {}
                o => panic!("setup {} failed: {}", src, detail(&o)),
            }
        }
        ctx
    }
    fn child(&self, binds: &[(&str, Obj)]) -> REnv {
        let e = Env::with_parent(&self.top);
        for (k, v) in binds {
            e.borrow_mut().insert(k.to_string(), ObjType::Any, v.clone()).expect("bind");
        }
        e
    }
    fn eval_in(&self, env: &REnv, src: &str) -> Out {
        let mut cache = self.cache.borrow_mut();
        let entry = cache.entry(src.to_string()).or_insert_with(|| {
            match catch_unwind(AssertUnwindSafe(|| parse(src))) {
                Ok(Ok(Some(e))) => Some(Box::new(e)),
                _ => None,
            }
        });
        match entry {
            None => Out::Throw(format!("parse error: {}", src)),
            Some(e) => guard(|| evaluate(env, e)),
        }
    }
    fn eval_with(&self, binds: &[(&str, Obj)], src: &str) -> Out {
        let env = self.child(binds);
        self.eval_in(&env, src)
    }
}

/// builtins that touch files, processes, the network, the clock, stdin, or random state, or that
/// end / suspend the process; output-only ones (print, echo, write, debug) go to a sink
const EXCLUDED: &[&str] = &[
    "read", "read_bytes", "read_compressed", "input", "interact", "interact_lines", "read_file", "read_file?",
    "read_file_bytes", "read_file_bytes?", "write_file", "append_file", "list_files", "run_process", "time", "now",
    "sleep", "request", "request_bytes", "request_json", "random", "random_bytes", "random_range", "shuffle", "choose",
    "eval", "vars", "par_each", "par_map",
];
/// (name, reason): callables that cannot be swept with arbitrary small arguments without hanging
/// or exhausting memory; they are still exercised with the arguments in `SAFE_KINDS`
const NO_BIG: &[&str] = &["^", "**", "^^", "$*", ".*", "*.", "<<", "repeat", "iota", "cycle", "iterate", "permutations",
    "combinations", "subsequences", "til", "to", "!", "factorial", "is_prime", "factorize", "^/", "nth_prime"];

fn pool(ctx: &Ctx, tier: &str) -> Vec<PoolVal> {
    let quick: &[(&str, &'static str)] = &[
        ("null", "null"),
        ("0", "num"),
        ("3", "num"),
        ("(0-2)", "num"),
        ("(1/2)", "num"),
        ("1.5", "num"),
        ("\"ab\"", "str"),
        ("\"b\"", "str"),
        ("[1,2,3]", "list"),
        ("[]", "list"),
        ("{1:2}", "dict"),
        ("V(1,2)", "vec"),
        ("B\"ab\"", "bytes"),
        ("(1 to 3)", "stream"),
        ("clinc", "func"),
    ];
    let more: &[(&str, &'static str)] = &[
        ("1", "num"),
        ("2", "num"),
        ("(0-1)", "num"),
        ("7", "num"),
        ("2^64", "num"),
        ("(0-2^63)", "num"),
        ("((0-7)/3)", "num"),
        ("0.0", "num"),
        ("(0-0.5)", "num"),
        ("2i", "num"),
        ("(1+1i)", "num"),
        ("\"\"", "str"),
        ("\"a b\"", "str"),
        ("\"1\"", "str"),
        ("[3,1,2]", "list"),
        ("[[1,2],[3,4]]", "list"),
        ("[\"a\",\"b\"]", "list"),
        ("[1,\"a\",null]", "list"),
        ("{}", "dict"),
        ("{\"a\":1,\"b\":2}", "dict"),
        ("{1,2}", "dict"),
        ("V(1.5,2,3)", "vec"),
        ("V()", "vec"),
        ("B\"\"", "bytes"),
        ("(1 til 1)", "stream"),
        ("(3 to 1 by (0-1))", "stream"),
        ("cllt", "func"),
        ("cl1", "func"),
        ("+", "func"),
    ];
    let mut all: Vec<(&str, &'static str)> = quick.to_vec();
    if tier == "thorough" {
        all.extend_from_slice(more);
    }
    all.iter()
        .map(|(src, kind)| match ctx.eval_in(&ctx.top, &format!("({})", src)) {
            Out::Ok(obj) => PoolVal { src: src.to_string(), kind, obj },
            o => panic!("pool value {} failed: {}", src, detail(&o)),
        })
        .collect()
}

// ---------------------------------------------------------------------------------------------
// surface forms: program text over the bound names f, a, b, c (x is the op-assign target)
fn form_src(form: &str, n: usize) -> Option<String> {
    let names = ["a", "b", "c"];
    let args = names[..n].join(", ");
    if let Some(pat) = form.strip_prefix("mix:").or_else(|| form.strip_prefix("lmix:")).or_else(|| form.strip_prefix("cmix:")) {
        // pieces consume the argument names left to right: L<k> plain, S<k> `...[..]`, H `_`, U<k> `..._`
        let (mut first, mut second, mut i) = (vec![], vec![], 0usize);
        for piece in pat.split('-') {
            let k: usize = if piece == "H" { 1 } else { piece[1..].parse().ok()? };
            if i + k > n {
                return None;
            }
            let taken = names[i..i + k].join(", ");
            match &piece[..1] {
                "L" => {
                    if k > 0 {
                        first.push(taken)
                    }
                }
                "S" => first.push(format!("...[{}]", taken)),
                "H" => {
                    first.push("_".to_string());
                    second.push(taken)
                }
                "U" => {
                    first.push("..._".to_string());
                    second.push(format!("[{}]", taken))
                }
                _ => return None,
            }
            i += k;
        }
        if i != n {
            return None;
        }
        return Some(if form.starts_with("cmix:") {
            // the callee is a placeholder too: it is supplied first
            second.insert(0, "f".to_string());
            format!("_({})({})", first.join(", "), second.join(", "))
        } else if form.starts_with("lmix:") {
            format!("[{}]({})", first.join(", "), second.join(", "))
        } else {
            format!("f({})({})", first.join(", "), second.join(", "))
        });
    }
    Some(match (form, n) {
        ("call", _) => format!("f({})", args),
        ("bang", _) => format!("f ! {}", args),
        ("infix", 2) => "a f b".into(),
        ("backtick", 2) => "a `f` b".into(),
        ("secall", _) => format!("f({})({})", vec!["_"; n].join(", "), args),
        ("chainR", 2) => "(_ f b)(a)".into(),
        ("chainL", 2) => "(a f _)(b)".into(),
        ("chainBoth", 2) => "(_ f _)(a, b)".into(),
        ("apply", _) => format!("[{}] apply f", args),
        ("of", _) => format!("f of [{}]", args),
        ("juxt", 2) => "(a f)(b)".into(),
        ("rsec", 2) => "f(b)(a)".into(),
        ("opassign", 2) => "x := a; x f= b; x".into(),
        // right-hand sides that mention the target itself (evaluated before the slot is nulled)
        ("opself", 1) => "x := a; x f= x; x".into(),
        ("opselfg", 1) => "x := a; x f= cl1(x); x".into(),
        ("opidx", 1) => "x := [a, 0]; x[0] f= x[0]; x[0]".into(),
        ("opthrow", 1) => "x := a; try x f= throw 1 catch _ -> 0; x".into(),
        ("opseq", 2) => "x := a; x f= (x; b); x".into(),
        // every TARGET shape: the value handed to f must be the value AT the written path
        ("optgt:idx", 2) => "x := [0, a, 7]; x[1] f= b; x[1]".into(),
        ("optgt:idx2", 2) => "x := [[1, 2, 3], [4, 5, a], [7, 8, 9]]; x[1][2] f= b; x[1][2]".into(),
        ("optgt:wd", 2) => "d := {1: {2: a, 1: 3}, 2: {1: 77, 2: 5}}; (d[1][2] = 55) f= b; d[1][2]".into(),
        ("optgt:wdinit", 2) => "d := {1: {1: 3}, 2: {1: 77}}; (d[1][2] = a) f= b; d[1][2]".into(),
        ("optgt:wd1", 2) => "d := {1: a, 2: 77}; (d[1] = 55) f= b; d[1]".into(),
        ("optgt:field", 2) => "s := Pt(0, a); s[py] f= b; s[py]".into(),
        ("splatAll", _) => format!("f(...[{}])", args),
        ("splatTail", _) if n >= 1 => format!("f(a, ...[{}])", names[1..n].join(", ")),
        ("dot", 1) => "a.f".into(),
        ("dotgt", 1) => "a .> f".into(),
        ("then", 1) => "a then f".into(),
        ("fwdDot", 1) => "f <. a".into(),
        (s, _) if s.starts_with("sec") => {
            let i: usize = s[3..].parse().ok()?;
            if i >= n {
                return None;
            }
            let mut with_hole: Vec<&str> = names[..n].to_vec();
            with_hole[i] = "_";
            format!("f({})({})", with_hole.join(", "), names[i])
        }
        _ => return None,
    })
}
/// name of the form in the Lean model (`dotgt` and `then` are the same model form as `dot`)
fn model_form(form: &str) -> &str {
    match form {
        "dotgt" | "then" => "dot",
        "opidx" => "opself",
        f if f.starts_with("optgt:") => "opassign",
        f => f,
    }
}
fn forms_for(n: usize) -> Vec<&'static str> {
    match n {
        1 => vec![
            "call", "bang", "sec0", "secall", "apply", "of", "splatAll", "splatTail", "dot", "dotgt", "then", "fwdDot",
            "mix:H-S0", "mix:S0-H", "mix:U1", "lmix:H-S0", "lmix:U1", "opself", "opselfg", "opidx", "opthrow",
            "cmix:L1", "cmix:H", "cmix:S1", "cmix:U1", "cmix:H-S0", "cmix:S0-H",
        ],
        2 => vec![
            "call", "bang", "infix", "backtick", "sec0", "sec1", "secall", "chainR", "chainL", "chainBoth", "apply", "of",
            "juxt", "rsec", "opassign", "opseq", "splatAll", "splatTail",
            "optgt:idx", "optgt:idx2", "optgt:wd", "optgt:wdinit", "optgt:wd1", "optgt:field",
            // `_` / `..._` combined with `...[…]` spreads in every relative order
            "mix:H-S1", "mix:S1-H", "mix:L1-H-S0", "mix:H-S0-L1", "mix:S0-H-L1", "mix:U1-L1", "mix:L1-U1", "mix:U2",
            "mix:H-U1", "mix:S0-H-H", "lmix:H-S1", "lmix:S1-H", "lmix:U1-L1", "lmix:H-S0-L1",
            // call sections whose callee is a placeholder too: 0..2 argument slots, literal / slot / splat mixes
            "cmix:L2", "cmix:S2", "cmix:H-L1", "cmix:L1-H", "cmix:H-H", "cmix:H-S1", "cmix:S1-H", "cmix:U2", "cmix:U1-L1",
            "cmix:L1-U1", "cmix:H-U1", "cmix:L1-S1",
        ],
        _ => vec![
            "call", "bang", "sec0", "sec1", "sec2", "secall", "apply", "of", "splatAll", "splatTail",
            "mix:H-S2", "mix:L1-H-S1", "mix:H-S1-H", "mix:S1-H-L1", "mix:S2-H", "mix:U2-L1", "mix:L1-U2", "mix:H-S0-L2",
            "mix:U1-S1-H", "lmix:H-S2", "lmix:L1-H-S1", "lmix:H-S1-H", "lmix:U2-L1",
            "cmix:L3", "cmix:L1-H-L1", "cmix:H-L1-H", "cmix:H-H-H", "cmix:H-S2", "cmix:L1-U2", "cmix:S1-H-L1",
            "cmix:U1-S1-H", "cmix:H-L2", "cmix:L2-H",
        ],
    }
}

// ---------------------------------------------------------------------------------------------
// terms printed by the Lean driver, and their resolution against the real interpreter
#[derive(Debug, Clone)]
enum Term {
    Arg(usize),
    List(Vec<Term>),
    Opq(String, Vec<Term>),
    Fun(Box<FTerm>),
}
#[derive(Debug, Clone)]
enum FTerm {
    B(usize),
    C(usize),
    T(usize),
    X(usize),
    P1(Box<FTerm>, Term),
    P2(Box<FTerm>, Term),
    PL(Box<FTerm>, Term),
    Comp(Box<FTerm>, Box<FTerm>),
    On(Box<FTerm>, Box<FTerm>),
    Flip(Box<FTerm>),
    LS(Vec<Option<Result<Term, bool>>>),
    CS(Term, Vec<Option<Result<Term, bool>>>),
    CSU(Vec<Option<Result<Term, bool>>>),
    CH(Option<Term>, Box<FTerm>, Option<Term>),
    Other(String),
}
struct P<'a> {
    s: &'a [u8],
    i: usize,
}
impl<'a> P<'a> {
    fn peek(&self) -> u8 {
        if self.i < self.s.len() {
            self.s[self.i]
        } else {
            0
        }
    }
    fn eat(&mut self, c: u8) -> bool {
        if self.peek() == c {
            self.i += 1;
            true
        } else {
            false
        }
    }
    fn ident(&mut self) -> String {
        let st = self.i;
        while self.i < self.s.len() && (self.s[self.i].is_ascii_alphanumeric() || self.s[self.i] == b':') {
            self.i += 1;
        }
        String::from_utf8_lossy(&self.s[st..self.i]).to_string()
    }
    fn num(&mut self) -> usize {
        let st = self.i;
        while self.i < self.s.len() && self.s[self.i].is_ascii_digit() {
            self.i += 1;
        }
        String::from_utf8_lossy(&self.s[st..self.i]).parse().unwrap_or(0)
    }
    fn term(&mut self) -> Option<Term> {
        if self.eat(b'$') {
            return Some(Term::Arg(self.num()));
        }
        let id = self.ident();
        if !self.eat(b'(') {
            return None;
        }
        let t = match id.as_str() {
            "L" => Term::List(self.terms()?),
            "O" => {
                let st = self.i;
                while self.peek() != b';' && self.peek() != 0 {
                    self.i += 1;
                }
                let label = String::from_utf8_lossy(&self.s[st..self.i]).to_string();
                self.eat(b';');
                Term::Opq(label, self.terms()?)
            }
            "F" => Term::Fun(Box::new(self.fterm()?)),
            _ => return None,
        };
        if !self.eat(b')') {
            return None;
        }
        Some(t)
    }
    /// comma separated terms up to (not including) the closing parenthesis
    fn terms(&mut self) -> Option<Vec<Term>> {
        let mut v = vec![];
        if self.peek() == b')' {
            return Some(v);
        }
        loop {
            v.push(self.term()?);
            if !self.eat(b',') {
                break;
            }
        }
        Some(v)
    }
    fn slot(&mut self) -> Option<Option<Result<Term, bool>>> {
        if self.eat(b'_') {
            if self.eat(b'*') {
                return Some(Some(Err(true)));
            }
            return Some(Some(Err(false)));
        }
        Some(Some(Ok(self.term()?)))
    }
    fn slots(&mut self) -> Option<Vec<Option<Result<Term, bool>>>> {
        let mut v = vec![];
        if self.peek() == b')' {
            return Some(v);
        }
        loop {
            v.push(self.slot()?);
            if !self.eat(b',') {
                break;
            }
        }
        Some(v)
    }
    fn opt(&mut self) -> Option<Option<Term>> {
        if self.eat(b'_') {
            return Some(None);
        }
        Some(Some(self.term()?))
    }
    fn fterm(&mut self) -> Option<FTerm> {
        let id = self.ident();
        if !self.eat(b'(') {
            return None;
        }
        let t = match id.as_str() {
            "B" => FTerm::B(self.num()),
            "C" => FTerm::C(self.num()),
            "T" => FTerm::T(self.num()),
            "X" => FTerm::X(self.num()),
            "P1" | "P2" | "PL" => {
                let f = self.fterm()?;
                self.eat(b',');
                let x = self.term()?;
                match id.as_str() {
                    "P1" => FTerm::P1(Box::new(f), x),
                    "P2" => FTerm::P2(Box::new(f), x),
                    _ => FTerm::PL(Box::new(f), x),
                }
            }
            "COMP" | "ON" => {
                let f = self.fterm()?;
                self.eat(b',');
                let g = self.fterm()?;
                if id == "COMP" {
                    FTerm::Comp(Box::new(f), Box::new(g))
                } else {
                    FTerm::On(Box::new(f), Box::new(g))
                }
            }
            "FLIP" => FTerm::Flip(Box::new(self.fterm()?)),
            "LS" => FTerm::LS(self.slots()?),
            "CSU" => FTerm::CSU(self.slots()?),
            "CS" => {
                let c = self.term()?;
                self.eat(b';');
                FTerm::CS(c, self.slots()?)
            }
            "CH" => {
                let s = self.opt()?;
                self.eat(b';');
                let f = self.fterm()?;
                self.eat(b';');
                let o = self.opt()?;
                FTerm::CH(s, Box::new(f), o)
            }
            other => {
                // CHN, IS …: not rebuilt
                while self.peek() != b')' && self.peek() != 0 {
                    self.i += 1;
                }
                FTerm::Other(other.to_string())
            }
        };
        if !self.eat(b')') {
            return None;
        }
        Some(t)
    }
}
fn parse_outcome(s: &str) -> Option<Result<Term, &'static str>> {
    if s == "throw" {
        return Some(Err("throw"));
    }
    if s == "panic" {
        return Some(Err("panic"));
    }
    let body = s.strip_prefix("ok ")?;
    let mut p = P { s: body.as_bytes(), i: 0 };
    let t = p.term()?;
    if p.i != body.len() {
        return None;
    }
    Some(Ok(t))
}

/// what the ids in a driver response stand for in one concrete case
struct Binding<'a> {
    ctx: &'a Ctx,
    env: REnv,
    /// leaves by model id (0, 1, …)
    leaves: Vec<Leaf>,
    /// the argument values ($0, $1, …; closures 100 + i are the function-valued arguments)
    args: Vec<Obj>,
}
enum Fail {
    Throw,
    Panic,
    /// the term uses something the harness cannot rebuild (reported, never judged)
    Unresolvable,
}
impl<'a> Binding<'a> {
    fn leaf_obj(&self, id: usize) -> Result<Obj, Fail> {
        if id >= 100 {
            return self.args.get(id - 100).cloned().ok_or(Fail::Unresolvable);
        }
        if id == 50 {
            // the user-defined g of `x f= g(x)`
            return self.ctx.top.borrow().vars.get("cl1").map(|(_, v)| v.borrow().clone()).ok_or(Fail::Unresolvable);
        }
        self.leaves.get(id).map(|l| l.obj.clone()).ok_or(Fail::Unresolvable)
    }
    fn leaf_func(&self, id: usize) -> Result<(Func, Precedence), Fail> {
        match self.leaf_obj(id)? {
            Obj::Func(f, p) => Ok((f, p)),
            _ => Err(Fail::Unresolvable),
        }
    }
    fn out(&self, o: Out) -> Result<Obj, Fail> {
        match o {
            Out::Ok(v) => Ok(v),
            Out::Throw(_) => Err(Fail::Throw),
            Out::Panic(_) => Err(Fail::Panic),
        }
    }
    fn val(&self, t: &Term) -> Result<Obj, Fail> {
        match t {
            Term::Arg(999) => Ok(Obj::Null),
            Term::Arg(i) => self.args.get(*i).cloned().ok_or(Fail::Unresolvable),
            Term::List(ts) => Ok(Obj::list(ts.iter().map(|t| self.val(t)).collect::<Result<Vec<_>, _>>()?)),
            Term::Fun(f) => match &**f {
                // a leaf used as a value keeps the precedence it has in the environment
                FTerm::B(id) | FTerm::C(id) | FTerm::T(id) | FTerm::X(id) => self.leaf_obj(*id),
                f => Ok(Obj::Func(self.func(f)?, Precedence::zero())),
            },
            Term::Opq(label, ts) => {
                let args = ts.iter().map(|t| self.val(t)).collect::<Result<Vec<_>, _>>()?;
                let (what, id) = match label.split_once(':') {
                    Some((w, i)) => (w, i.parse::<usize>().unwrap_or(usize::MAX)),
                    None => (label.as_str(), usize::MAX),
                };
                let env = self.env.clone();
                match what {
                    "b1" | "b2" | "bn" => {
                        let (f, _) = self.leaf_func(id)?;
                        match f {
                            Func::Builtin(b) => self.out(guard(|| match (what, args.len()) {
                                ("b1", 1) => b.run1(&env, args[0].clone()),
                                ("b2", 2) => b.run2(&env, args[0].clone(), args[1].clone()),
                                _ => b.run(&env, args.clone()),
                            })),
                            _ => Err(Fail::Unresolvable),
                        }
                    }
                    "cl" | "ty" | "x" => {
                        let (f, _) = self.leaf_func(id)?;
                        self.out(guard(|| f.run(&env, args.clone())))
                    }
                    "dyn" => {
                        let callee = args[0].clone();
                        let rest = args[1..].to_vec();
                        self.out(guard(|| noulith::call(&env, callee, rest)))
                    }
                    "index" => {
                        let (x, i) = (args[0].clone(), args[1].clone());
                        self.out(guard(|| noulith::index(x, i)))
                    }
                    _ => Err(Fail::Unresolvable),
                }
            }
        }
    }
    fn slots(&self, ss: &[Option<Result<Term, bool>>]) -> Result<Vec<Result<Obj, bool>>, Fail> {
        ss.iter()
            .map(|s| match s {
                Some(Ok(t)) => Ok(Ok(self.val(t)?)),
                Some(Err(b)) => Ok(Err(*b)),
                None => Err(Fail::Unresolvable),
            })
            .collect()
    }
    fn func(&self, f: &FTerm) -> Result<Func, Fail> {
        Ok(match f {
            FTerm::B(id) | FTerm::C(id) | FTerm::T(id) | FTerm::X(id) => self.leaf_func(*id)?.0,
            FTerm::P1(f, x) => Func::PartialApp1(Box::new(self.func(f)?), Box::new(self.val(x)?)),
            FTerm::P2(f, x) => Func::PartialApp2(Box::new(self.func(f)?), Box::new(self.val(x)?)),
            FTerm::PL(f, x) => Func::PartialAppLast(Box::new(self.func(f)?), Box::new(self.val(x)?)),
            FTerm::Comp(f, g) => Func::Composition(Box::new(self.func(f)?), Box::new(self.func(g)?)),
            FTerm::On(f, g) => Func::OnComposition(Box::new(self.func(f)?), Box::new(self.func(g)?)),
            FTerm::Flip(f) => Func::Flip(Box::new(self.func(f)?)),
            FTerm::LS(ss) => Func::ListSection(self.slots(ss)?),
            FTerm::CS(c, ss) => Func::CallSection(Some(Box::new(self.val(c)?)), Box::new(self.slots(ss)?)),
            FTerm::CSU(ss) => Func::CallSection(None, Box::new(self.slots(ss)?)),
            FTerm::CH(s, op, o) => {
                let loc = match self.ctx.cache.borrow().values().flatten().next() {
                    Some(e) => e.start,
                    None => return Err(Fail::Unresolvable),
                };
                let prec = match &**op {
                    FTerm::B(id) | FTerm::C(id) | FTerm::T(id) | FTerm::X(id) => self.leaf_func(*id)?.1,
                    _ => Precedence::zero(),
                };
                let seed = match s {
                    Some(t) => Some(Box::new(self.val(t)?)),
                    None => None,
                };
                let opd = match o {
                    Some(t) => Some(Box::new(self.val(t)?)),
                    None => None,
                };
                Func::ChainSection(seed, Box::new(vec![(loc, loc, Box::new(self.func(op)?), prec, opd)]))
            }
            FTerm::Other(_) => return Err(Fail::Unresolvable),
        })
    }
    /// class text of a predicted outcome, or None when it cannot be resolved
    fn resolve(&self, resp: &str) -> Option<String> {
        match parse_outcome(resp)? {
            Err(c) => Some(c.to_string()),
            Ok(t) => match self.val(&t) {
                Ok(v) => Some(class(&Out::Ok(v))),
                Err(Fail::Throw) => Some("throw".into()),
                Err(Fail::Panic) => Some("panic".into()),
                Err(Fail::Unresolvable) => None,
            },
        }
    }
}

// ---------------------------------------------------------------------------------------------
// callables under test
#[derive(Clone)]
struct Callable {
    /// text shown in inputs and used by --replay
    src: String,
    /// key prefix (builtin name, or the shape of a composite)
    label: String,
    /// driver tokens (leaf ids 0, 1, …; captured values are $3, $4)
    tokens: String,
    leaves: Vec<Leaf>,
    /// captured data values (bound to v, w when the composite is built; $3, $4 in the model)
    captured: Vec<PoolVal>,
    obj: Obj,
    is_leaf: bool,
}

fn rt_struct_of(o: &Obj) -> String {
    match o {
        Obj::Func(Func::Builtin(b), _) => {
            let d = format!("{:?}", b);
            let head: String = d.chars().take_while(|c| c.is_alphanumeric() || *c == '_' || *c == '$').collect();
            if head == "$name" {
                "ComparisonOperator".into() // its hand-written Debug prints the macro variable literally
            } else if head == "Spy" {
                "BasicBuiltin".into() // modelled as the run-only family: all three entry points report the arguments
            } else {
                head
            }
        }
        _ => String::new(),
    }
}

struct Table {
    /// name or alias -> struct family of the generated table
    by_name: HashMap<String, String>,
}
fn load_table(driver: &str) -> (Table, Vec<String>) {
    let resp = run_driver(driver, &["table".to_string(), "families".to_string()]);
    let mut by_name = HashMap::new();
    for item in resp[0].split('|') {
        let p: Vec<&str> = item.split(':').collect();
        if p.len() < 4 {
            continue;
        }
        let name = String::from_utf8_lossy(&unhex(p[0])).to_string();
        by_name.insert(name, p[1].to_string());
        if p[2] != "-" {
            by_name.insert(String::from_utf8_lossy(&unhex(p[2])).to_string(), p[1].to_string());
        }
    }
    let mut drift = vec![];
    for item in resp[1].split('|') {
        let p: Vec<&str> = item.split(':').collect();
        if p.len() == 5 && (p[1] != p[3] || p[2] != p[4]) {
            drift.push(format!(
                "struct {}: model overrides (run1={}, run2={}) but lib.rs now has (run1={}, run2={})",
                p[0], p[1], p[2], p[3], p[4]
            ));
        }
    }
    (Table { by_name }, drift)
}

fn leaves_of(ctx: &Ctx, table: &Table, rep: &mut Report) -> Vec<Leaf> {
    let mut names: Vec<String> = ctx.top.borrow().vars.keys().cloned().collect();
    names.sort();
    let mut out = vec![];
    let mut seen_in_env = HashSet::new();
    for n in names {
        let obj = ctx.top.borrow().vars.get(&n).map(|(_, v)| v.borrow().clone()).unwrap();
        match &obj {
            Obj::Func(Func::Builtin(_), _) => {
                let rt = rt_struct_of(&obj);
                let is_spy = n.starts_with("spy");
                let family = if is_spy {
                    "BasicBuiltin".to_string()
                } else {
                    match table.by_name.get(&n) {
                        Some(f) => f.clone(),
                        None => {
                            // a builtin of the real environment that the generated table does not know
                            rep.judge(&format!("table:{}", n), &format!("builtin `{}` of the global environment", n),
                                &format!("registered as {}", rt), "not in the generated registration table", &format!("registered as {}", rt));
                            continue;
                        }
                    }
                };
                if !is_spy && family != rt {
                    rep.judge(&format!("table:{}", n), &format!("builtin `{}` of the global environment", n),
                        &format!("registered as {}", rt), &format!("table says {}", family), &format!("registered as {}", rt));
                }
                seen_in_env.insert(n.clone());
                out.push(Leaf { name: n, kind: 'B', family, obj });
            }
            Obj::Func(Func::Type(_), _) => {
                out.push(Leaf { name: n, kind: 'T', family: "Type".into(), obj })
            }
            Obj::Func(Func::Closure(_), _) => {
                out.push(Leaf { name: n, kind: 'C', family: "Closure".into(), obj })
            }
            Obj::Func(..) => out.push(Leaf { name: n, kind: 'X', family: "Other".into(), obj }),
            _ => {}
        }
    }
    let missing: Vec<&String> = table.by_name.keys().filter(|k| !k.starts_with("type:") && !seen_in_env.contains(*k)).collect();
    if !missing.is_empty() {
        let mut m: Vec<String> = missing.iter().map(|s| s.to_string()).collect();
        m.sort();
        rep.notes.push(format!("in the table but not in this build's environment (cfg-gated features): {}", m.join(" ")));
    }
    out
}

fn composites(ctx: &Ctx, leaves: &[Leaf], pool: &[PoolVal], driver: &str, rep: &mut Report, seed: u64, nrandom: usize) -> Vec<Callable> {
    let get = |n: &str| leaves.iter().find(|l| l.name == n).cloned().unwrap_or_else(|| panic!("leaf {}", n));
    let pv = |s: &str| pool.iter().find(|p| p.src == s).cloned().unwrap_or_else(|| panic!("pool {}", s));
    // (source over g, h [leaves 0, 1] and v [captured $3], shape label, leaves, captured, driver tokens)
    let l = |id: usize, lf: &Leaf| lf.tokens(id);
    let mut specs: Vec<(String, String, Vec<Leaf>, Vec<PoolVal>, String)> = vec![];
    let spy = get("spy");
    let spyb = get("spyb");
    let cl2 = get("cl2");
    let cl1 = get("cl1");
    let clv = get("clv");
    let plus = get("+");
    let minus = get("-");
    let maxb = get("max");
    let lt = get("<");
    let zip = get("zip");
    let append = get("append");
    let three = pv("3");
    let lst = pv("[1,2,3]");
    for g in [&spy, &cl2, &clv, &plus, &minus, &lt, &append, &maxb] {
        specs.push(("flip(g)".into(), format!("flip({})", g.name), vec![g.clone()], vec![], format!("FLIP {}", l(0, g))));
    }
    specs.push(("flip(flip(g))".into(), "flip(flip(spy))".into(), vec![spy.clone()], vec![], format!("FLIP FLIP {}", l(0, &spy))));
    for (g, h) in [(&spy, &spyb), (&cl1, &cl2), (&cl1, &plus), (&spy, &clv), (&get("len"), &zip), (&minus, &plus)] {
        specs.push(("(g <<< h)".into(), format!("({} <<< {})", g.name, h.name), vec![g.clone(), h.clone()], vec![],
            format!("COMP {} {}", l(0, g), l(1, h))));
        specs.push(("(h >>> g)".into(), format!("({} >>> {})", h.name, g.name), vec![g.clone(), h.clone()], vec![],
            format!("COMP {} {}", l(0, g), l(1, h))));
    }
    for (g, h) in [(&spy, &spyb), (&cl2, &cl1), (&plus, &cl1), (&clv, &minus), (&lt, &get("len"))] {
        specs.push(("(g on h)".into(), format!("({} on {})", g.name, h.name), vec![g.clone(), h.clone()], vec![],
            format!("ON {} {}", l(0, g), l(1, h))));
    }
    for (g, v) in [(&plus, &three), (&minus, &three), (&lt, &three), (&append, &three), (&spy, &three), (&cl2, &three), (&get("til"), &three), (&maxb, &lst)] {
        // `v g` → PartialApp1(g, v) (left section)
        specs.push(("(v g)".into(), format!("({} {})", v.src, g.name), vec![g.clone()], vec![v.clone()],
            format!("P1 {} {}", l(0, g), v.token(3))));
    }
    for (g, v) in [(&plus, &three), (&lt, &three), (&append, &three), (&get("til"), &three), (&get("in"), &lst), (&get("map"), &pv("clinc"))] {
        specs.push(("g(v):P2".into(), format!("{}({})", g.name, v.src), vec![g.clone()], vec![v.clone()],
            format!("P2 {} {}", l(0, g), v.token(3))));
    }
    for (g, v) in [(&maxb, &three), (&zip, &lst), (&get("count"), &three), (&get("merge"), &pv("{1:2}"))] {
        specs.push(("g(v):PL".into(), format!("{}({})", g.name, v.src), vec![g.clone()], vec![v.clone()],
            format!("PL {} {}", l(0, g), v.token(3))));
    }
    for g in [&spy, &cl2, &plus, &maxb] {
        specs.push(("g(_, v)".into(), format!("{}(_, {})", g.name, three.src), vec![g.clone()], vec![three.clone()],
            format!("CS F {} 2 H {}", l(0, g), three.token(3))));
        specs.push(("(v g _)".into(), format!("({} {} _)", three.src, g.name), vec![g.clone()], vec![three.clone()],
            format!("CH {} {} N", three.token(3), l(0, g))));
        specs.push(("[v, _]".into(), format!("[{}, _]", three.src), vec![], vec![three.clone()],
            format!("LS 2 {} H", three.token(3))));
    }
    specs.push(("flip(g(v))".into(), "flip(+(3))".into(), vec![plus.clone()], vec![three.clone()],
        format!("FLIP P2 {} {}", l(0, &plus), three.token(3))));
    specs.push(("((v g) <<< h)".into(), "((3 -) <<< cl2)".into(), vec![minus.clone(), cl2.clone()], vec![three.clone()],
        format!("COMP P1 {} {} {}", l(0, &minus), three.token(3), l(1, &cl2))));
    specs.push(("(g(v) <<< h)".into(), "(+(3) <<< spy)".into(), vec![plus.clone(), spy.clone()], vec![three.clone()],
        format!("COMP P2 {} {} {}", l(0, &plus), three.token(3), l(1, &spy))));
    // random nestings of the combinators (seeded): every sub-expression is bound to a name, the
    // model term is built alongside; callables that receive results of opaque bodies (the outer
    // function of a composition) are built from probe builtins and closures only, because the
    // model cannot know the kind of such a result
    let mut rng = Rng::new(seed ^ 0xC04C04);
    let any_leaves: Vec<Leaf> = ["spy", "spyb", "cl1", "cl2", "cl3", "clv", "+", "-", "<", "append", "max", "zip", "til", "len", "in", "=="]
        .iter().map(|n| get(n)).collect();
    let plain_leaves: Vec<Leaf> = ["spy", "spyb", "spyc", "cl1", "cl2", "cl3", "clv"].iter().map(|n| get(n)).collect();
    let caps: Vec<PoolVal> = ["3", "\"ab\"", "[1,2,3]", "null", "(1/2)"].iter().map(|s| pv(s)).collect();
    struct G<'a> {
        rng: &'a mut Rng,
        decls: Vec<String>,
        lvs: Vec<Leaf>,
        cap: Vec<PoolVal>,
        any: &'a [Leaf],
        plain: &'a [Leaf],
        caps: &'a [PoolVal],
    }
    impl<'a> G<'a> {
        fn leaf(&mut self, plain: bool) -> (String, String, String) {
            let l = if plain { self.rng.pick(self.plain).clone() } else { self.rng.pick(self.any).clone() };
            let id = match self.lvs.iter().position(|x| x.name == l.name) {
                Some(i) => i,
                None => {
                    self.lvs.push(l.clone());
                    self.lvs.len() - 1
                }
            };
            (l.name.clone(), l.tokens(id), l.name.clone())
        }
        fn capture(&mut self) -> (String, String) {
            let v = self.rng.pick(self.caps).clone();
            let tok = v.token(3 + self.cap.len());
            let name = format!("v{}", self.cap.len());
            self.decls.push(format!("{} := {}", name, v.src));
            self.cap.push(v);
            (name, tok)
        }
        /// returns (identifier, model tokens, shape)
        fn expr(&mut self, depth: u32, plain: bool) -> (String, String, String) {
            if depth == 0 || self.rng.chance(1, 4) {
                return self.leaf(plain);
            }
            let (src, tok, shape) = match self.rng.below(if self.cap.len() < 2 { 9 } else { 4 }) {
                0 => {
                    let (x, t, s) = self.expr(depth - 1, plain);
                    (format!("flip({})", x), format!("FLIP {}", t), format!("flip({})", s))
                }
                1 => {
                    let (x, tx, sx) = self.expr(depth - 1, true);
                    let (y, ty, sy) = self.expr(depth - 1, plain);
                    (format!("({} <<< {})", x, y), format!("COMP {} {}", tx, ty), format!("({} <<< {})", sx, sy))
                }
                2 => {
                    let (x, tx, sx) = self.expr(depth - 1, true);
                    let (y, ty, sy) = self.expr(depth - 1, plain);
                    (format!("({} >>> {})", y, x), format!("COMP {} {}", tx, ty), format!("({} >>> {})", sy, sx))
                }
                3 => {
                    let (x, tx, sx) = self.expr(depth - 1, true);
                    let (y, ty, sy) = self.expr(depth - 1, plain);
                    (format!("({} on {})", x, y), format!("ON {} {}", tx, ty), format!("({} on {})", sx, sy))
                }
                4 => {
                    let (x, t, s) = self.expr(depth - 1, plain);
                    let (v, tv) = self.capture();
                    (format!("{}(_, {})", x, v), format!("CS F {} 2 H {}", t, tv), format!("{}(_, v)", s))
                }
                5 => {
                    let (x, t, s) = self.expr(depth - 1, plain);
                    let (v, tv) = self.capture();
                    (format!("{}({}, _)", x, v), format!("CS F {} 2 {} H", t, tv), format!("{}(v, _)", s))
                }
                6 => {
                    let (x, t, s) = self.expr(depth - 1, plain);
                    let (v, tv) = self.capture();
                    (format!("({} {} _)", v, x), format!("CH {} {} N", tv, t), format!("(v {} _)", s))
                }
                7 => {
                    let (x, t, s) = self.expr(depth - 1, plain);
                    let (v, tv) = self.capture();
                    (format!("(_ {} {})", x, v), format!("CH N {} {}", t, tv), format!("(_ {} v)", s))
                }
                _ => {
                    let (x, t, s) = self.expr(depth - 1, plain);
                    (format!("{}(_, _)", x), format!("CS F {} 2 H H", t), format!("{}(_, _)", s))
                }
            };
            let name = format!("t{}", self.decls.len());
            self.decls.push(format!("{} := {}", name, src));
            (name, tok, shape)
        }
    }
    for _ in 0..nrandom {
        let mut g = G { rng: &mut rng, decls: vec![], lvs: vec![], cap: vec![], any: &any_leaves, plain: &plain_leaves, caps: &caps };
        let (name, tokens, shape) = g.expr(3, false);
        if g.decls.is_empty() {
            continue; // a bare leaf: already swept
        }
        let src = format!("{}; {}", g.decls.join("; "), name);
        specs.push((format!("rnd:{}", shape), src, g.lvs.clone(), g.cap.clone(), tokens));
    }
    let mut seen = HashSet::new();
    let mut out = vec![];
    for (shape, src, lvs, cap, tokens) in specs {
        if !seen.insert(src.clone()) {
            continue;
        }
        // build the real value: the leaves are referred to by their own names
        let real = ctx.eval_with(&[], &src);
        let obj = match real {
            Out::Ok(o @ Obj::Func(..)) => o,
            o => {
                if shape.starts_with("rnd:") {
                    rep.arm("random composite does not evaluate to a function (skipped)");
                } else {
                    rep.judge(&format!("composite:{}", shape), &src, &detail(&o), "a function", "a function");
                }
                continue;
            }
        };
        // the pairing (source, model tokens) is itself checked: rebuild the model's value and compare Display
        let b = Binding { ctx, env: ctx.child(&[]), leaves: lvs.clone(), args: pad_args(&[], &cap) };
        let want = class(&Out::Ok(obj.clone()));
        let rebuilt = tokens_to_term(&tokens).and_then(|t| b.func(&t).ok()).map(|f| class(&Out::Ok(Obj::Func(f, Precedence::zero()))));
        rep.case(&format!("build {}", src), true);
        if rebuilt.as_deref() != Some(want.as_str()) {
            rep.judge(&format!("composite:{}", shape), &src, &want, rebuilt.as_deref().unwrap_or("unbuildable"), &want);
            continue;
        }
        out.push(Callable { src, label: shape, tokens, leaves: lvs, captured: cap, obj, is_leaf: false });
    }
    // the library combinators as the model has their bodies (lib.rs flip / <<< / >>> / on)
    let reqs = vec![
        ("mk flip 1 F B 0 BasicBuiltin", "flip(spy)", vec![spy.clone()]),
        ("mk compose 2 F B 0 BasicBuiltin F C 1", "spy <<< cl2", vec![spy.clone(), cl2.clone()]),
        ("mk rcompose 2 F B 0 BasicBuiltin F C 1", "spy >>> cl2", vec![spy.clone(), cl2.clone()]),
        ("mk on 2 F B 0 BasicBuiltin F C 1", "spy on cl2", vec![spy.clone(), cl2.clone()]),
        ("mk flip 1 A num 0", "flip(3)", vec![]),
        ("mk compose 2 F B 0 BasicBuiltin A num 0", "spy <<< 3", vec![spy.clone()]),
    ];
    let resp = run_driver(driver, &reqs.iter().map(|r| r.0.to_string()).collect::<Vec<_>>());
    for (i, (req, src, lvs)) in reqs.iter().enumerate() {
        let b = Binding { ctx, env: ctx.child(&[]), leaves: lvs.clone(), args: vec![pv("3").obj] };
        let real = class(&ctx.eval_with(&[], src));
        let imp = b.resolve(split_resp(&resp[i]).0.as_str()).unwrap_or_else(|| "unresolvable".into());
        rep.case(&format!("mk {}", src), true);
        rep.judge(&format!("combinator:{}", req.split(' ').nth(1).unwrap_or("")), &format!("{}\nrequest: {}", src, req), &real, &imp, &real);
    }
    out
}
fn pad_args(args: &[Obj], captured: &[PoolVal]) -> Vec<Obj> {
    let mut v: Vec<Obj> = args.to_vec();
    while v.len() < 3 {
        v.push(Obj::Null);
    }
    for c in captured {
        v.push(c.obj.clone());
    }
    v
}
/// driver tokens of a callable → the FTerm it denotes (same grammar the Lean driver parses)
fn tokens_to_term(tokens: &str) -> Option<FTerm> {
    let toks: Vec<&str> = tokens.split(' ').collect();
    let mut i = 0;
    let f = tk_func(&toks, &mut i)?;
    if i == toks.len() {
        Some(f)
    } else {
        None
    }
}
fn tk_func(t: &[&str], i: &mut usize) -> Option<FTerm> {
    let h = *t.get(*i)?;
    *i += 1;
    Some(match h {
        "B" => {
            let id = t.get(*i)?.parse().ok()?;
            *i += 2;
            FTerm::B(id)
        }
        "C" | "T" | "X" => {
            let id = t.get(*i)?.parse().ok()?;
            *i += 1;
            match h {
                "C" => FTerm::C(id),
                "X" => FTerm::X(id),
                _ => FTerm::T(id),
            }
        }
        "P1" | "P2" | "PL" => {
            let f = tk_func(t, i)?;
            let v = tk_val(t, i)?;
            match h {
                "P1" => FTerm::P1(Box::new(f), v),
                "P2" => FTerm::P2(Box::new(f), v),
                _ => FTerm::PL(Box::new(f), v),
            }
        }
        "COMP" | "ON" => {
            let f = tk_func(t, i)?;
            let g = tk_func(t, i)?;
            if h == "COMP" {
                FTerm::Comp(Box::new(f), Box::new(g))
            } else {
                FTerm::On(Box::new(f), Box::new(g))
            }
        }
        "FLIP" => FTerm::Flip(Box::new(tk_func(t, i)?)),
        "CS" => {
            let c = tk_val(t, i)?;
            let n: usize = t.get(*i)?.parse().ok()?;
            *i += 1;
            FTerm::CS(c, tk_slots(t, i, n)?)
        }
        "LS" => {
            let n: usize = t.get(*i)?.parse().ok()?;
            *i += 1;
            FTerm::LS(tk_slots(t, i, n)?)
        }
        "CH" => {
            let s = tk_opt(t, i)?;
            let f = tk_func(t, i)?;
            let o = tk_opt(t, i)?;
            FTerm::CH(s, Box::new(f), o)
        }
        _ => return None,
    })
}
fn tk_opt(t: &[&str], i: &mut usize) -> Option<Option<Term>> {
    if *t.get(*i)? == "N" {
        *i += 1;
        return Some(None);
    }
    Some(Some(tk_val(t, i)?))
}
fn tk_slots(t: &[&str], i: &mut usize, n: usize) -> Option<Vec<Option<Result<Term, bool>>>> {
    let mut v = vec![];
    for _ in 0..n {
        match *t.get(*i)? {
            "H" => {
                *i += 1;
                v.push(Some(Err(false)))
            }
            "HS" => {
                *i += 1;
                v.push(Some(Err(true)))
            }
            _ => v.push(Some(Ok(tk_val(t, i)?))),
        }
    }
    Some(v)
}
fn tk_val(t: &[&str], i: &mut usize) -> Option<Term> {
    let h = *t.get(*i)?;
    *i += 1;
    Some(match h {
        "A" => {
            let id = t.get(*i + 1)?.parse().ok()?;
            *i += 2;
            Term::Arg(id)
        }
        "F" => Term::Fun(Box::new(tk_func(t, i)?)),
        _ => return None,
    })
}

// ---------------------------------------------------------------------------------------------
fn request_for(c: &Callable, form: &str, args: &[&PoolVal]) -> String {
    let mut s = format!("form {} {} {}", model_form(form), args.len(), c.tokens);
    for (i, a) in args.iter().enumerate() {
        s.push(' ');
        s.push_str(&a.token(i));
    }
    s
}

fn is_func_class(s: &str) -> bool {
    s.starts_with("ok fn:")
}

/// run every form of one (callable, argument tuple); returns the number of evaluations
fn run_tuple(
    ctx: &Ctx,
    rep: &mut Report,
    model: &HashMap<String, String>,
    c: &Callable,
    args: &[&PoolVal],
    forms: &[&'static str],
    verbose: bool,
) {
    let n = args.len();
    let names = ["a", "b", "c"];
    let mut binds: Vec<(&str, Obj)> = vec![("f", c.obj.clone())];
    for i in 0..n {
        binds.push((names[i], args[i].obj.clone()));
    }
    let argobjs: Vec<Obj> = args.iter().map(|a| a.obj.clone()).collect();
    // the reference: the plain call
    let ref_src = form_src("call", n).unwrap();
    let reference = class(&ctx.eval_with(&binds, &ref_src));
    let nontrivial = reference.starts_with("ok");
    let unordered = false;
    let describe = |form: &str| {
        let mut s = format!("{} | f := {}", form, c.src);
        for i in 0..n {
            s.push_str(&format!(" | {} := {}", names[i], args[i].src));
        }
        s
    };
    // side conditions evaluated on the real interpreter
    let one_arg_is_func = if n == 2 {
        let b1: Vec<(&str, Obj)> = vec![("f", c.obj.clone()), ("a", args[1].obj.clone())];
        is_func_class(&class(&ctx.eval_with(&b1, "f(a)")))
    } else {
        false
    };
    let data_args = args.iter().all(|a| a.kind != "func");
    // the model cannot know that an opaque body returned a function: its prediction for calling
    // that result is then not meaningful (counted, not judged)
    let opaque_callee = n == 2
        && one_arg_is_func
        && model.get(&request_for(c, "call", &[args[1]])).map_or(false, |r| r.starts_with("ok O("));
    for form in forms {
        let src = match form_src(form, n) {
            Some(s) => s,
            None => continue,
        };
        if form.starts_with("lmix:") && c.label != "spy" {
            continue;
        }
        SPYLOG.with(|l| l.borrow_mut().clear());
        let out = ctx.eval_with(&binds, &src);
        let rust = if unordered { sort_top(&class(&out)) } else { class(&out) };
        let entries: Vec<&'static str> = SPYLOG.with(|l| l.borrow().clone());
        let req = request_for(c, form, args);
        let input = format!(
            "{}   [{}]\nrequest: {}\ncallable: {} ;; {} ;; {}",
            describe(form), src, req, c.tokens,
            c.leaves.iter().map(|l| hex(l.name.as_bytes())).collect::<Vec<_>>().join(" "),
            c.captured.iter().map(|v| hex(v.src.as_bytes())).collect::<Vec<_>>().join(" ")
        );
        rep.case(&input, nontrivial);
        rep.outcome(if rust.starts_with("ok fn:") {
            "function"
        } else if rust.starts_with("ok") {
            "value"
        } else if rust == "throw" {
            "throw"
        } else {
            "panic"
        });
        rep.arm(&format!("{}/{}", form, n));
        if rust == "panic" {
            rep.arm(&format!("panic in {}", c.label));
        }
        if c.is_leaf && c.label.starts_with("spy") && !entries.is_empty() {
            rep.arm(&format!("spy entry {}/{} -> {}", form, n, entries.join("+")));
        }
        let (impl_raw, spec_raw) = match model.get(&req) {
            Some(r) => split_resp(r),
            None => ("driver-missing".to_string(), "ref:none".to_string()),
        };
        // Spec: the reference the property attaches to this form
        let spec = match spec_raw.as_str() {
            "ref:always" => reference.clone(),
            "ref:selfPair" => class(&ctx.eval_with(&binds, "f(a, a)")),
            "ref:selfApp" => class(&ctx.eval_with(&binds, "f(a, cl1(a))")),
            "ref:argA" => class(&Out::Ok(args[0].obj.clone())),
            "ref:listLit" => class(&ctx.eval_with(&binds, &format!("[{}]", names[..n].join(", ")))),
            "ref:ifNotFunc" => {
                if args[0].kind == "func" {
                    rust.clone()
                } else {
                    reference.clone()
                }
            }
            "ref:ifSection" => {
                // the clause is about functions of the global environment and data arguments
                // (also flipped functions: `flip(g)(b)(a) = flip(g)(a, b)`, theorem right_section_flip)
                if (c.is_leaf || c.tokens.starts_with("FLIP ")) && data_args && one_arg_is_func && reference.starts_with("ok") {
                    reference.clone()
                } else {
                    rust.clone()
                }
            }
            _ => rust.clone(),
        };
        // Impl: the model's prediction resolved on the real builtin objects
        let b = Binding { ctx, env: ctx.child(&binds), leaves: c.leaves.clone(), args: pad_args(&argobjs, &c.captured) };
        let imp = if impl_raw == "driver-missing" || impl_raw == "bad-op" {
            impl_raw.clone()
        } else if *form == "rsec" && opaque_callee {
            rep.arm("model: one-argument call returns a function from an opaque body (rsec prediction skipped)");
            rust.clone()
        } else {
            match b.resolve(&impl_raw) {
                Some(s) if unordered => sort_top(&s),
                // where the real code panics inside an opaque body the model only knows "fails"
                // a random composite can drop the result of an intermediate call (a section given
                // too many arguments ignores the rest); when that call fails on the real interpreter
                // the model, which only sees the final term, cannot know — the form and the plain
                // call still have to agree
                Some(s) if c.label.starts_with("rnd:") && s.starts_with("ok") && !rust.starts_with("ok") && rust == spec => {
                    rep.arm("random composite: an intermediate call fails on the real interpreter (model prediction skipped)");
                    rust.clone()
                }
                Some(s) if rust == "panic" && s == "throw" => {
                    rep.arm("real code panics inside a body (C14's subject; forms still compared)");
                    rust.clone()
                }
                Some(s) => s,
                None => {
                    rep.arm("model prediction not resolvable (skipped)");
                    rust.clone()
                }
            }
        };
        let key = format!("{}:{}", c.label, form);
        if verbose {
            println!("{}\n  rust: {}\n  impl: {}   <= {}\n  spec: {}   <= {}", input, detail(&out), imp, impl_raw, spec, spec_raw);
        }
        if rust != spec || rust != imp {
            // Results that come out of a freshly built HashMap (group_all, set, …) have no defined
            // order (every HashMap has its own hasher).  Before filing a disagreement, find out
            // whether the form or the plain call even agrees with itself.
            let mut unstable = false;
            for _ in 0..24 {
                if class(&ctx.eval_with(&binds, &src)) != class(&out) || class(&ctx.eval_with(&binds, &ref_src)) != reference {
                    unstable = true;
                    break;
                }
            }
            if unstable {
                let (r, i, s) = (sort_top(&rust), sort_top(&imp), sort_top(&spec));
                if r == s && r == i {
                    rep.arm("unordered result (compared with the top-level list sorted)");
                } else {
                    rep.arm("result not deterministic (HashMap order inside; not judged)");
                }
                continue;
            }
        }
        if rust != spec || rust != imp {
            let n = rep.arms.get(&format!("disagreements of {}", key)).cloned().unwrap_or(0);
            rep.arm(&format!("disagreements of {}", key));
            if n >= 3 {
                continue; // keep room in the report for other keys
            }
        }
        rep.judge(&key, &input, &rust, &imp, &spec);
        // The same form written lexically inside `freeze` (operands as parameters, and operands
        // as free outer variables, which freeze turns into constants) must give what it gives
        // unfrozen: the interpreter against itself, and against the model's unfrozen prediction.
        if c.is_leaf || !c.label.starts_with("rnd:") {
            let params = names[..n].join(", ");
            let variants = [
                ("frozen-params", format!("(freeze \\{} -> ({}))({})", params, src, params)),
                ("frozen-consts", format!("(freeze \\ -> ({}))()", src)),
            ];
            for (tag, fsrc) in variants.iter() {
                let fout = ctx.eval_with(&binds, fsrc);
                let frozen = class(&fout);
                rep.case(fsrc, nontrivial);
                rep.arm(tag);
                if frozen == rust {
                    continue;
                }
                let mut unstable = false;
                for _ in 0..24 {
                    if class(&ctx.eval_with(&binds, fsrc)) != frozen || class(&ctx.eval_with(&binds, &src)) != class(&out) {
                        unstable = true;
                        break;
                    }
                }
                if unstable {
                    rep.arm("result not deterministic (HashMap order inside; not judged)");
                    continue;
                }
                let fkey = format!("{}:{}", key, tag);
                let n = rep.arms.get(&format!("disagreements of {}", fkey)).cloned().unwrap_or(0);
                rep.arm(&format!("disagreements of {}", fkey));
                if n >= 3 {
                    continue;
                }
                let finput = format!("{}\nfrozen: {}   [{}]", input, tag, fsrc);
                if verbose {
                    println!("  {}: {}   [{}]", tag, detail(&fout), fsrc);
                }
                rep.judge(&fkey, &finput, &frozen, &imp, &rust);
            }
        }
    }
}

/// evaluate `form` and `reference` (program texts over a, b, c, d, e) and file a disagreement
fn raw_compare(ctx: &Ctx, rep: &mut Report, key: &str, vals: &[(&str, Obj)], names: &[&str], form: &str, reference: &str) {
    let binds: Vec<(&str, Obj)> = names.iter().zip(vals.iter()).map(|(n, v)| (*n, v.1.clone())).collect();
    let spec = class(&ctx.eval_with(&binds, reference));
    let rust = class(&ctx.eval_with(&binds, form));
    let mut input = String::from("raw");
    for (n, v) in names.iter().zip(vals.iter()) {
        input.push_str(&format!(" | {} := {}", n, v.0));
    }
    input.push_str(&format!(" | form: {} | ref: {}", form, reference));
    rep.case(&input, spec.starts_with("ok"));
    if rust != spec {
        let n = rep.arms.get(&format!("disagreements of {}", key)).cloned().unwrap_or(0);
        rep.arm(&format!("disagreements of {}", key));
        if n >= 3 {
            return;
        }
    }
    rep.judge(key, &input, &rust, &spec, &spec);
}

/// (1) chain sections with 2-3 operators of different precedence, the placeholder(s) in every
/// operand position, against the direct chain; (2) call / bang / splat / apply / of / section forms
/// with 3-5 arguments of the variadic builtins against the infix chain.
fn chain_and_nary_sweep(ctx: &Ctx, rep: &mut Report, rng: &mut Rng, shard: usize, nshards: usize, thorough: bool) {
    let names = ["a", "b", "c", "d", "e"];
    let val = |src: &'static str| -> (&'static str, Obj) {
        match ctx.eval_in(&ctx.top, &format!("({})", src)) {
            Out::Ok(o) => (src, o),
            o => panic!("value {} failed: {}", src, detail(&o)),
        }
    };
    let nums: Vec<(&str, Obj)> = ["0", "1", "2", "3", "5", "(0-2)", "(1/2)", "1.5"].iter().map(|s| val(s)).collect();
    let ops = ["+", "-", "*", "/", "//", "%", "max", "min", "<", "=="];
    let mut idx = 0usize;
    // (1) chain sections
    let rounds = if thorough { 4000 } else { 500 };
    for _ in 0..rounds {
        idx += 1;
        let nops = 2 + rng.below(2) as usize;
        let chosen: Vec<&str> = (0..nops).map(|_| *rng.pick(&ops)).collect();
        let vals: Vec<(&str, Obj)> = (0..nops + 1).map(|_| rng.pick(&nums).clone()).collect();
        if idx % nshards != shard {
            continue;
        }
        let direct = {
            let mut s = names[0].to_string();
            for (i, o) in chosen.iter().enumerate() {
                s.push_str(&format!(" {} {}", o, names[i + 1]));
            }
            s
        };
        // every non-empty set of operand positions as placeholders (at most 2 of them)
        for mask in 1u32..(1 << (nops + 1)) {
            if mask.count_ones() > 2 {
                continue;
            }
            let mut sect = String::new();
            let mut supplied = vec![];
            for i in 0..=nops {
                if i > 0 {
                    sect.push_str(&format!(" {} ", chosen[i - 1]));
                }
                if mask & (1 << i) != 0 {
                    sect.push('_');
                    supplied.push(names[i]);
                } else {
                    sect.push_str(names[i]);
                }
            }
            let form = format!("({})({})", sect, supplied.join(", "));
            rep.arm("chain section with several operators");
            raw_compare(ctx, rep, &format!("chainsec:{}:{:b}", chosen.join(","), mask), &vals, &names[..nops + 1], &form, &direct);
        }
    }
    // (2) n-ary call forms of the variadic builtins
    let ints: Vec<(&str, Obj)> = ["0", "1", "2", "3"].iter().map(|s| val(s)).collect();
    let seqs: Vec<(&str, Obj)> = ["[1,2]", "[3]", "[]", "\"ab\"", "[4,5,6]"].iter().map(|s| val(s)).collect();
    let variadic: [(&str, bool); 10] = [
        ("<", false), ("<=", false), (">", false), (">=", false), ("==", false), ("!=", false), ("max", false), ("min", false),
        ("zip", true), ("ziplongest", true),
    ];
    for (op, on_seqs) in variadic.iter() {
        for n in 3..=5usize {
            let tuples = if thorough { 300 } else if n == 3 { 64 } else { 40 };
            for t in 0..tuples {
                idx += 1;
                let domain = if *on_seqs { &seqs } else { &ints };
                let vals: Vec<(&str, Obj)> = if n == 3 && !*on_seqs && t < 64 {
                    // all triples over 0..3
                    vec![ints[t % 4].clone(), ints[(t / 4) % 4].clone(), ints[(t / 16) % 4].clone()]
                } else {
                    (0..n).map(|_| rng.pick(domain).clone()).collect()
                };
                if idx % nshards != shard {
                    continue;
                }
                let ns = &names[..n];
                let args = ns.join(", ");
                let chain = ns.join(&format!(" {} ", op));
                let mut forms: Vec<(String, String)> = vec![
                    ("call".into(), format!("{}({})", op, args)),
                    ("bang".into(), format!("{} ! {}", op, args)),
                    ("splatAll".into(), format!("{}(...[{}])", op, args)),
                    ("splatTail".into(), format!("{}({}, ...[{}])", op, ns[0], ns[1..].join(", "))),
                    ("apply".into(), format!("[{}] apply {}", args, op)),
                    ("of".into(), format!("{} of [{}]", op, args)),
                    ("secall".into(), format!("{}({})({})", op, vec!["_"; n].join(", "), args)),
                    ("calleeSlot".into(), format!("_({})({})", args, op)),
                    ("lastSection".into(), format!("{}({})({})", op, ns[n - 1], ns[..n - 1].join(", "))),
                ];
                for i in 0..n {
                    let mut with_hole: Vec<&str> = ns.to_vec();
                    with_hole[i] = "_";
                    forms.push((format!("sec{}", i), format!("{}({})({})", op, with_hole.join(", "), ns[i])));
                }
                for (fname, src) in forms {
                    // `f(last)(rest…)` is PartialAppLast only for max / min / zip; comparisons build PartialApp2
                    if fname == "lastSection" && !["max", "min", "zip", "ziplongest"].contains(op) {
                        continue;
                    }
                    rep.arm(&format!("n-ary {}/{}", fname, n));
                    raw_compare(ctx, rep, &format!("nary:{}:{}/{}", op, fname, n), &vals, ns, &src, &chain);
                }
            }
        }
    }
}

/// Several application forms of ONE user closure (defined in the program, with 0, 1 or 2 captured
/// locals) applied one after the other in one frame, with an op-assignment in between — evaluated
/// as written and after the optimiser pass (`optimize_expr`, the CLI's -O, which turns the closure
/// into an internal lambda and the locals into internal-stack slots).  Every element must be what
/// the plain call gives on its own.
fn sequence_sweep(ctx: &Ctx, rep: &mut Report, pool: &[PoolVal], rng: &mut Rng, shard: usize, nshards: usize, thorough: bool) {
    let preludes: [(&str, &str); 4] = [
        ("cap0", "f := \\p, q -> [p, q]"),
        ("cap1", "k := 100; f := \\p, q -> [k, p, q]"),
        ("cap2", "k := 100; m := \"m\"; f := \\p, q -> [m, p, k, q]"),
        ("cap1sub", "k := 100; f := \\p, q -> k + p - q"),
    ];
    let forms = ["call", "bang", "infix", "backtick", "sec0", "sec1", "secall", "chainR", "chainL", "chainBoth", "apply", "of", "juxt"];
    let data: Vec<&PoolVal> = pool.iter().filter(|p| p.kind != "func").collect();
    let per_pair = if thorough { 6 } else { 2 };
    let mut idx = 0usize;
    for a in &data {
        for b in &data {
            idx += 1;
            if idx % nshards != shard {
                continue;
            }
            for _ in 0..per_pair {
                let (pname, prelude) = *rng.pick(&preludes);
                let f1 = *rng.pick(&forms);
                let f2 = *rng.pick(&forms);
                let f3 = *rng.pick(&forms);
                let srcs: Vec<String> = [f1, f2, f3].iter().map(|f| format!("({})", form_src(f, 2).unwrap())).collect();
                let binds: Vec<(&str, Obj)> = vec![("a", a.obj.clone()), ("b", b.obj.clone())];
                // what one plain call gives
                let single = class(&ctx.eval_with(&binds, &format!("{}; f(a, b)", prelude)));
                let (program, expected) = if rng.chance(1, 2) {
                    (format!("{}; [{}, {}, {}]", prelude, srcs[0], srcs[1], srcs[2]), vec![&single; 3])
                } else {
                    (
                        format!("{}; x := a; y := {}; x f= b; [y, {}, x, {}]", prelude, srcs[0], srcs[1], srcs[2]),
                        vec![&single; 4],
                    )
                };
                let spec = if single.starts_with("ok ") {
                    format!("ok [{}]", expected.iter().map(|e| &e[3..]).collect::<Vec<_>>().join(","))
                } else {
                    single.clone()
                };
                let input = format!("seq {} {}+{}+{} | a := {} | b := {}   [{}]", pname, f1, f2, f3, a.src, b.src, program);
                // as written
                let plain = class(&ctx.eval_with(&binds, &program));
                rep.case(&input, spec.starts_with("ok"));
                rep.arm("sequence (as written)");
                rep.judge(&format!("seq-plain:{}:{}", pname, f2), &input, &plain, &spec, &spec);
                // through the optimiser
                let env = ctx.child(&binds);
                let optimised = catch_unwind(AssertUnwindSafe(|| parse(&program).ok().flatten().map(noulith::optimize_expr)));
                match optimised {
                    Ok(Some(e)) => {
                        let out = class(&guard(|| evaluate(&env, &e)));
                        rep.case(&format!("{} (optimised)", input), spec.starts_with("ok"));
                        rep.arm("sequence (optimised)");
                        rep.judge(&format!("seq-opt:{}:{}", pname, f2), &format!("{}\noptimised: yes", input), &out, &spec, &spec);
                    }
                    _ => rep.arm("sequence: optimiser does not support the program (skipped)"),
                }
            }
        }
    }
}

/// `ok [x,y,…]` with the top-level elements sorted by their text
fn sort_top(class: &str) -> String {
    let body = match class.strip_prefix("ok [").and_then(|r| r.strip_suffix(']')) {
        Some(b) => b,
        None => return class.to_string(),
    };
    let mut parts = vec![];
    let (mut depth, mut cur) = (0i32, String::new());
    for ch in body.chars() {
        match ch {
            '[' | '{' | '(' => depth += 1,
            ']' | '}' | ')' => depth -= 1,
            _ => {}
        }
        if ch == ',' && depth == 0 {
            parts.push(std::mem::take(&mut cur));
        } else {
            cur.push(ch);
        }
    }
    if !cur.is_empty() {
        parts.push(cur);
    }
    parts.sort();
    format!("ok [{}]", parts.join(","))
}

fn leaf_callable(l: &Leaf) -> Callable {
    Callable {
        src: l.name.clone(),
        label: l.name.clone(),
        tokens: l.tokens(0),
        leaves: vec![l.clone()],
        captured: vec![],
        obj: l.obj.clone(),
        is_leaf: true,
    }
}

fn excluded(name: &str) -> bool {
    EXCLUDED.contains(&name)
}

// ---------------------------------------------------------------------------------------------
fn shard_main(args: &Args, shard: usize, nshards: usize, progress: &str) {
    install_quiet_panic_hook();
    let ctx = Ctx::new();
    let mut rep = Report::new("C04", args);
    let (table, _) = load_table(&args.driver);
    let pool = pool(&ctx, &args.tier);
    let leaves = leaves_of(&ctx, &table, &mut Report::new("C04", args));
    let thorough = args.tier == "thorough";
    let mut callables: Vec<Callable> = leaves.iter().filter(|l| !excluded(&l.name)).map(leaf_callable).collect();
    let nrandom = if thorough { 400 } else { 60 };
    if shard == 0 {
        // the table cross-check and the checks of the composite constructions are reported once
        let _ = leaves_of(&ctx, &table, &mut rep);
        callables.extend(composites(&ctx, &leaves, &pool, &args.driver, &mut rep, args.seed, nrandom));
    } else {
        callables.extend(composites(&ctx, &leaves, &pool, &args.driver, &mut Report::new("C04", args), args.seed, nrandom));
    }
    let mine: Vec<Callable> = callables.into_iter().enumerate().filter(|(i, _)| i % nshards == shard).map(|(_, c)| c).collect();
    // arity-3 pool: small
    let small: Vec<&PoolVal> = pool
        .iter()
        .filter(|p| ["3", "\"ab\"", "[1,2,3]", "clinc", "null", "(1 to 3)", "{1:2}"].contains(&p.src.as_str()))
        .take(if thorough { 7 } else { 4 })
        .collect();
    // collect the model requests first (they depend on struct family, kinds and form only)
    let mut reqs: Vec<String> = vec![];
    let mut seen = HashSet::new();
    let kinds_rep: Vec<&PoolVal> = {
        let mut k: BTreeMap<&str, &PoolVal> = BTreeMap::new();
        for p in &pool {
            k.entry(p.kind).or_insert(p);
        }
        k.values().cloned().collect()
    };
    for c in &mine {
        for n in 1..=3usize {
            let mut tuples: Vec<Vec<&PoolVal>> = vec![vec![]];
            for _ in 0..n {
                let mut next = vec![];
                for t in &tuples {
                    for k in &kinds_rep {
                        let mut t2 = t.clone();
                        t2.push(*k);
                        next.push(t2);
                    }
                }
                tuples = next;
            }
            for t in tuples {
                for form in forms_for(n) {
                    if form_src(form, n).is_none() {
                        continue;
                    }
                    let r = request_for(c, form, &t);
                    if seen.insert(r.clone()) {
                        reqs.push(r);
                    }
                }
            }
        }
    }
    let resp = run_driver(&args.driver, &reqs);
    let model: HashMap<String, String> = reqs.into_iter().zip(resp.into_iter()).collect();
    let mut rng = Rng::new(args.seed ^ (shard as u64).wrapping_mul(0x9E37));
    for c in &mine {
        let _ = std::fs::write(progress, format!("{}", c.src));
        let risky = c.leaves.iter().any(|l| {
            let own = match &l.obj {
                Obj::Func(Func::Builtin(b), _) => b.builtin_name().to_string(),
                _ => l.name.clone(),
            };
            NO_BIG.contains(&l.name.as_str()) || NO_BIG.contains(&own.as_str())
        });
        let usable: Vec<&PoolVal> = pool
            .iter()
            .filter(|p| !(risky && (p.src.contains("2^6") || p.src == "7")))
            .collect();
        // one argument: the whole pool
        for a in &usable {
            run_tuple(&ctx, &mut rep, &model, c, &[*a], &forms_for(1), false);
        }
        // two arguments: all pairs; forms other than the cheap core are sampled when the plain call fails
        for a in &usable {
            for b in &usable {
                if !c.is_leaf && !thorough && rng.chance(1, 2) {
                    continue;
                }
                let binds: Vec<(&str, Obj)> = vec![("f", c.obj.clone()), ("a", a.obj.clone()), ("b", b.obj.clone())];
                let ok = class(&ctx.eval_with(&binds, "f(a, b)")).starts_with("ok");
                let all = forms_for(2);
                let forms: Vec<&'static str> = if ok || thorough {
                    all
                } else {
                    // "or all fail": every form still has to fail; check a rotating third of them
                    let k = rng.below(3) as usize;
                    all.into_iter().enumerate().filter(|(i, _)| i % 3 == k).map(|(_, f)| f).collect()
                };
                run_tuple(&ctx, &mut rep, &model, c, &[*a, *b], &forms, false);
            }
        }
        // three arguments: a small pool
        for a in &small {
            for b in &small {
                for cc in &small {
                    if !thorough && rng.chance(1, 2) {
                        continue;
                    }
                    run_tuple(&ctx, &mut rep, &model, c, &[*a, *b, *cc], &forms_for(3), false);
                }
            }
        }
    }
    let _ = std::fs::write(progress, "sequences");
    sequence_sweep(&ctx, &mut rep, &pool, &mut rng, shard, nshards, thorough);
    let _ = std::fs::write(progress, "chains and n-ary calls");
    chain_and_nary_sweep(&ctx, &mut rep, &mut rng, shard, nshards, thorough);
    let _ = std::fs::write(progress, "done");
    rep.write(&args.out);
}

fn merge(rep: &mut Report, path: &str, shard: usize) -> bool {
    let text = match std::fs::read_to_string(path) {
        Ok(t) => t,
        Err(_) => return false,
    };
    let j: serde_json::Value = match serde_json::from_str(&text) {
        Ok(j) => j,
        Err(_) => return false,
    };
    rep.evaluations += j["evaluations"].as_u64().unwrap_or(0);
    for i in 0..j["distinct_nontrivial"].as_u64().unwrap_or(0) {
        rep.distinct.insert(format!("{}:{}", shard, i));
    }
    for (k, v) in j["arms"].as_object().cloned().unwrap_or_default() {
        *rep.arms.entry(k).or_insert(0) += v.as_u64().unwrap_or(0);
    }
    for (k, v) in j["outcomes"].as_object().cloned().unwrap_or_default() {
        *rep.outcomes.entry(k).or_insert(0) += v.as_u64().unwrap_or(0);
    }
    for d in j["disagreements"].as_array().cloned().unwrap_or_default() {
        if rep.disagreements.len() < 400 {
            rep.disagreements.push(Disagreement {
                kind: d["kind"].as_str().unwrap_or("").into(),
                key: d["key"].as_str().unwrap_or("").into(),
                input: d["input"].as_str().unwrap_or("").into(),
                rust: d["rust"].as_str().unwrap_or("").into(),
                impl_: d["impl"].as_str().unwrap_or("").into(),
                spec: d["spec"].as_str().unwrap_or("").into(),
            });
        }
    }
    for n in j["notes"].as_array().cloned().unwrap_or_default() {
        let s = n.as_str().unwrap_or("").to_string();
        if !rep.notes.contains(&s) {
            rep.notes.push(s);
        }
    }
    for s in j["samples"].as_array().cloned().unwrap_or_default() {
        if rep.samples.len() < 12 {
            rep.samples.push(s.as_str().unwrap_or("").lines().next().unwrap_or("").to_string());
        }
    }
    true
}

/// a composite that this run's generator did not produce: rebuild it from the `callable:` line
/// that follows the input line in the replay file (model tokens ;; leaf names ;; captured values)
fn rebuild_callable(ctx: &Ctx, leaves: &[Leaf], pool: &[PoolVal], fsrc: &str, text: &str, input_line: &str) -> Option<Callable> {
    let mut after = text.lines().skip_while(|l| *l != input_line).skip(1);
    let cl = after.find(|l| l.starts_with("callable: "))?.strip_prefix("callable: ")?;
    let parts: Vec<&str> = cl.split(" ;; ").collect();
    if parts.len() < 3 {
        return None;
    }
    let unhex_s = |h: &str| String::from_utf8_lossy(&unhex(h)).to_string();
    let lvs: Vec<Leaf> = parts[1].split(' ').filter(|x| !x.is_empty()).filter_map(|h| leaves.iter().find(|l| l.name == unhex_s(h)).cloned()).collect();
    let cap: Vec<PoolVal> = parts[2].split(' ').filter(|x| !x.is_empty()).filter_map(|h| pool.iter().find(|v| v.src == unhex_s(h)).cloned()).collect();
    match ctx.eval_with(&[], fsrc) {
        Out::Ok(obj @ Obj::Func(..)) => Some(Callable {
            src: fsrc.to_string(),
            label: "replayed".into(),
            tokens: parts[0].to_string(),
            leaves: lvs,
            captured: cap,
            obj,
            is_leaf: false,
        }),
        _ => None,
    }
}

fn replay(args: &Args, path: &str) {
    install_quiet_panic_hook();
    let ctx = Ctx::new();
    let mut rep = Report::new("C04", args);
    let (table, _) = load_table(&args.driver);
    let pool = pool(&ctx, "thorough");
    let leaves = leaves_of(&ctx, &table, &mut rep);
    let comps = composites(&ctx, &leaves, &pool, &args.driver, &mut rep, args.seed, if args.tier == "thorough" { 400 } else { 60 });
    let text = std::fs::read_to_string(path).expect("replay file");
    for line in text.lines() {
        let rest = match line.strip_prefix("input: ") {
            Some(r) => r,
            None => continue,
        };
        let head = rest.split("   [").next().unwrap_or(rest);
        if rest.starts_with("raw | ") {
            let mut binds: Vec<(String, Obj)> = vec![];
            let (mut form, mut reference) = (String::new(), String::new());
            for part in rest.split(" | ").skip(1) {
                if let Some(f) = part.strip_prefix("form: ") {
                    form = f.to_string();
                } else if let Some(r) = part.strip_prefix("ref: ") {
                    reference = r.to_string();
                } else if let Some((n, src)) = part.split_once(" := ") {
                    if let Out::Ok(o) = ctx.eval_in(&ctx.top, &format!("({})", src)) {
                        binds.push((n.to_string(), o));
                    }
                }
            }
            let b: Vec<(&str, Obj)> = binds.iter().map(|(n, o)| (n.as_str(), o.clone())).collect();
            println!("{}", rest);
            println!("  form:      {}", detail(&ctx.eval_with(&b, &form)));
            println!("  reference: {}", detail(&ctx.eval_with(&b, &reference)));
            continue;
        }
        if rest.starts_with("seq ") {
            // a sequence program: re-run it as written and through the optimiser
            let program = rest.splitn(2, "   [").nth(1).and_then(|p| p.strip_suffix(']')).unwrap_or("");
            let mut binds: Vec<(&str, Obj)> = vec![];
            for (name, p) in ["a", "b"].iter().zip(head.split(" | ").skip(1)) {
                let src = p.splitn(2, ":= ").nth(1).unwrap_or("").trim();
                if let Some(v) = pool.iter().find(|v| v.src == src) {
                    binds.push((*name, v.obj.clone()));
                }
            }
            println!("{}", rest);
            let prelude = program.rsplitn(2, "; ").nth(1).unwrap_or("");
            let prelude = prelude.split("; x := a").next().unwrap_or(prelude);
            println!("  one plain call: {}", detail(&ctx.eval_with(&binds, &format!("{}; f(a, b)", prelude))));
            println!("  as written:     {}", detail(&ctx.eval_with(&binds, program)));
            let env = ctx.child(&binds);
            match catch_unwind(AssertUnwindSafe(|| parse(program).ok().flatten().map(noulith::optimize_expr))) {
                Ok(Some(e)) => println!("  optimised:      {}", detail(&guard(|| evaluate(&env, &e)))),
                _ => println!("  optimised:      (the optimiser does not support this program)"),
            }
            continue;
        }
        let parts: Vec<&str> = head.split(" | ").collect();
        if parts.len() < 2 {
            println!("cannot replay: {}", rest);
            continue;
        }
        let form = parts[0].trim();
        let fsrc = parts[1].trim().strip_prefix("f := ").unwrap_or("");
        let known = leaves.iter().find(|l| l.name == fsrc).map(leaf_callable).or_else(|| comps.iter().find(|c| c.src == fsrc).cloned());
        let c = match known.or_else(|| rebuild_callable(&ctx, &leaves, &pool, fsrc, &text, line)) {
            Some(c) => c,
            None => {
                println!("cannot replay: unknown callable {}", fsrc);
                continue;
            }
        };
        let mut vals: Vec<PoolVal> = vec![];
        for p in &parts[2..] {
            let src = p.splitn(2, ":= ").nth(1).unwrap_or("").trim();
            match pool.iter().find(|v| v.src == src) {
                Some(v) => vals.push(v.clone()),
                None => println!("cannot replay: unknown pool value {}", src),
            }
        }
        let refs: Vec<&PoolVal> = vals.iter().collect();
        let forms: Vec<&'static str> = forms_for(refs.len()).into_iter().filter(|f| *f == form).collect();
        let mut reqs: Vec<String> = forms.iter().map(|f| request_for(&c, f, &refs)).collect();
        if refs.len() == 2 {
            reqs.push(request_for(&c, "call", &[refs[1]]));
        }
        let resp = run_driver(&args.driver, &reqs);
        let model: HashMap<String, String> = reqs.into_iter().zip(resp.into_iter()).collect();
        run_tuple(&ctx, &mut rep, &model, &c, &refs, &forms, true);
    }
}

fn main() {
    let args = parse_args();
    if let Some(path) = &args.replay {
        replay(&args, path);
        return;
    }
    // child mode: --shard k n progressfile
    if let Some(pos) = args.extra.iter().position(|s| s == "--shard") {
        let k: usize = args.extra[pos + 1].parse().unwrap();
        let n: usize = args.extra[pos + 2].parse().unwrap();
        shard_main(&args, k, n, &args.extra[pos + 3]);
        return;
    }
    install_quiet_panic_hook();
    let mut rep = Report::new("C04", &args);
    rep.rule = "every callable of the real global environment (all registered builtins except the ones touching files, \
                stdin, clock, processes, network or random state; all types; 3 probe builtins with separately written \
                run/run1/run2; 6 user closures; a struct type with its field accessors; memoized / index / slice / update \
                section / parallel / fanout / lifted values; ~70 fixed composites: flip, <<<, >>>, on, PartialApp1/2/Last, \
                call/chain/list sections, nested; 60 (quick) or 400 (thorough) seeded random nestings of those combinators to \
                depth 3) x argument tuples from a pool of all value kinds (15 values quick, 44 thorough; arity 1: whole pool, \
                arity 2: all pairs, arity 3: 4 or 7 values) x every surface form (call, bang, infix, backtick, an underscore in \
                every position, all underscores, chain sections, apply, of, juxtaposition, right section, op-assign, splats, \
                ., .>, then, <.); a case is non-trivial when the plain call succeeds; distinct = distinct (form, callable, \
                arguments)"
        .into();
    let thorough = args.tier == "thorough";
    let nshards: usize = if thorough { 14 } else { 8 };
    let timeout = std::time::Duration::from_secs(if thorough { 3000 } else { 75 });
    let exe = std::env::current_exe().expect("exe");
    let base = if args.out.is_empty() { "/tmp/c04.report".to_string() } else { args.out.clone() };
    let (_, drift) = load_table(&args.driver);
    for d in drift {
        rep.fidelity.push(d);
    }
    let mut children = vec![];
    for k in 0..nshards {
        let out = format!("{}.shard{}", base, k);
        let prog = format!("{}.shard{}.cur", base, k);
        let _ = std::fs::remove_file(&out);
        let cmd = format!(
            "ulimit -v 6000000; exec '{}' --tier {} --seed {} --driver '{}' --out '{}' --shard {} {} '{}'",
            exe.display(), args.tier, args.seed, args.driver, out, k, nshards, prog
        );
        let ch = std::process::Command::new("sh")
            .arg("-c")
            .arg(cmd)
            .stdout(std::process::Stdio::null())
            .stderr(std::process::Stdio::piped())
            .spawn()
            .expect("spawn shard");
        children.push((k, ch, out, prog));
    }
    let start = std::time::Instant::now();
    for (k, mut ch, out, prog) in children {
        let status = loop {
            match ch.try_wait() {
                Ok(Some(s)) => break Some(s),
                Ok(None) => {
                    if start.elapsed() > timeout {
                        let _ = ch.kill();
                        let _ = ch.wait();
                        break None;
                    }
                    std::thread::sleep(std::time::Duration::from_millis(50));
                }
                Err(_) => break None,
            }
        };
        let cur = std::fs::read_to_string(&prog).unwrap_or_default();
        let ok = merge(&mut rep, &out, k);
        if !ok || status.map_or(true, |s| !s.success()) {
            let mut err = String::new();
            if let Some(mut e) = ch.stderr.take() {
                use std::io::Read;
                let _ = e.read_to_string(&mut err);
            }
            let what = if status.is_none() { "timed out" } else { "died" };
            rep.judge(
                &format!("harness:shard{}", k),
                &format!("shard {} of {} {} while sweeping callable `{}`", k, nshards, what, cur),
                &format!("{} ({})", what, err.lines().last().unwrap_or("").chars().take(200).collect::<String>()),
                "completes",
                &format!("{} ({})", what, err.lines().last().unwrap_or("").chars().take(200).collect::<String>()),
            );
        }
        let _ = std::fs::remove_file(&out);
        let _ = std::fs::remove_file(&prog);
    }
    rep.write(&args.out);
}
