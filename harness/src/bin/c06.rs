//! C06 correspondence: integer builtins of the real interpreter vs Impl model (NInt, both
//! representations) vs Spec (Lean `Int`), on operands produced in chosen representations.
use num::bigint::BigInt;
use num::{Signed, ToPrimitive};
use vharness::*;

const BIN_OPS: &[&str] = &[
    "+", "-", "*", "%", "//", "%%", "/!", "^", "&", "|", "~", "<<", ">>", "gcd", "lcm", "==", "!=",
    "<", "<=", ">", ">=", "<=>",
];
const UN_OPS: &[&str] = &["neg", "not", "abs", "signum", "even", "odd", "is_prime", "factorize"];

fn lit(v: &BigInt) -> String {
    // a source expression whose value is v, built from non-negative literals only
    if v.is_negative() {
        let m = -v;
        if m == BigInt::from(9223372036854775808u64) {
            "(0-9223372036854775807-1)".to_string()
        } else {
            format!("(0-{})", m)
        }
    } else {
        format!("{}", v)
    }
}

/// ways of producing an operand (the property quantifies over them)
fn produce(v: &BigInt, how: u64) -> String {
    match how {
        0 => lit(v),                                              // literal
        1 => format!("({}^1)", lit(v)),                           // result of `^`
        2 => format!("(2^70+{}-2^70)", lit(v)),                   // difference of big values
        3 => format!("int(\"{}\")", v),                           // parse of a string
        4 => format!("({}*1)", lit(v)),                           // product
        _ => format!("(0-(0-{}))", lit(v)),
    }
}

fn special_values() -> Vec<BigInt> {
    let mut v: Vec<BigInt> = vec![];
    let two = BigInt::from(2);
    for base in [0u32, 1, 5, 31, 32, 53, 62, 63, 64, 65, 100] {
        let p = if base == 0 { BigInt::from(0) } else { num::pow(two.clone(), base as usize) };
        for d in -2i64..=2 {
            v.push(&p + d);
            v.push(-(&p) + d);
        }
    }
    for k in [2i64, 3, 7, 10, 12, 97, 360, 1000003, 4294967291] {
        v.push(BigInt::from(k));
        v.push(BigInt::from(-k));
    }
    v.sort();
    v.dedup();
    v
}

fn random_value(rng: &mut Rng, max_bits: u64) -> BigInt {
    let bits = match rng.below(6) {
        0 => rng.below(8),
        1 => rng.below(40),
        2 => 55 + rng.below(20),
        3 => rng.below(200),
        _ => rng.below(max_bits),
    };
    let mut x = BigInt::from(0);
    let mut got = 0;
    while got < bits {
        let take = std::cmp::min(60, bits - got);
        x = (x << (take as usize)) + BigInt::from(rng.below(1u64 << take));
        got += take;
    }
    if rng.chance(1, 2) {
        -x
    } else {
        x
    }
}

struct Case {
    kind: &'static str, // "bin" | "un"
    op: String,
    a: BigInt,
    b: BigInt,
    src_a: String,
    src_b: String,
}

fn main() {
    let args = parse_args();
    install_quiet_panic_hook();
    let mut rep = Report::new("C06", &args);
    rep.rule = "operand pairs from the special pool (0, +-1, +-2^31, +-2^32, +-2^53, +-2^62..2^65 and \
                neighbours) and random values up to max_bits bits, each produced by one of 6 methods \
                (literal, ^1, difference of big values, int(str), *1, double negation) x all integer \
                operators; a case is non-trivial when at least one operand or the result is outside \
                [-2^31, 2^31] or held in big representation; distinct = distinct (op, operand \
                expressions)"
        .into();
    let interp = Interp::new();
    let specials = special_values();
    let mut rng = Rng::new(args.seed);
    let (n_cases, max_bits) = match args.tier.as_str() {
        "thorough" => (150_000u64, 4000u64),
        _ => (7_000u64, 1500u64),
    };
    let mut cases: Vec<Case> = vec![];

    // replay mode: one recorded input
    if let Some(path) = &args.replay {
        let text = std::fs::read_to_string(path).expect("replay file");
        for line in text.lines() {
            if let Some(rest) = line.strip_prefix("input: ") {
                let out = interp.eval(rest);
                println!("rust: {}", out.detail());
            }
            if let Some(rest) = line.strip_prefix("request: ") {
                let r = run_driver(&args.driver, &[rest.to_string()]);
                println!("model (impl, spec, rep): {}", r[0]);
            }
        }
        return;
    }

    // 1. exhaustive over the special pool for a few operators, both production methods 0/1
    for (i, a) in specials.iter().enumerate() {
        for (j, b) in specials.iter().enumerate() {
            let op = BIN_OPS[(i * 7 + j * 3) % BIN_OPS.len()];
            let ha = ((i + j) % 6) as u64;
            let hb = ((i * 3 + j) % 6) as u64;
            cases.push(Case {
                kind: "bin",
                op: op.to_string(),
                a: a.clone(),
                b: b.clone(),
                src_a: produce(a, ha),
                src_b: produce(b, hb),
            });
        }
        for op in UN_OPS {
            cases.push(Case {
                kind: "un",
                op: op.to_string(),
                a: a.clone(),
                b: BigInt::from(0),
                src_a: produce(a, (i % 6) as u64),
                src_b: String::new(),
            });
        }
    }
    // 1a. the machine-word boundary values x every binary operator x both ways of holding them
    let crit: Vec<BigInt> = {
        let p63 = num::pow(BigInt::from(2), 63);
        let p64 = num::pow(BigInt::from(2), 64);
        vec![
            BigInt::from(0), BigInt::from(1), BigInt::from(-1), BigInt::from(2), BigInt::from(-2), BigInt::from(3),
            -p63.clone(), -p63.clone() + 1, p63.clone() - 1, p63.clone(), -p63.clone() - 1, p64.clone(), -p64.clone(),
        ]
    };
    for (i, a) in crit.iter().enumerate() {
        for (j, b) in crit.iter().enumerate() {
            for op in BIN_OPS.iter() {
                // every combination of the two ways of holding each operand: literal (a machine word when
                // it fits) and forced-big production
                for (ha, hb) in [(0u64, 0u64), (0, 1), (1, 0), (1, 1)] {
                    cases.push(Case { kind: "bin", op: op.to_string(), a: a.clone(), b: b.clone(), src_a: produce(a, ha), src_b: produce(b, hb) });
                }
            }
        }
    }
    // 1a'. every unary operator on every small value, held as a machine word and held in big representation
    for v in -40i64..=40 {
        let a = BigInt::from(v);
        for op in UN_OPS {
            for h in [0u64, 1, 2] {
                cases.push(Case { kind: "un", op: op.to_string(), a: a.clone(), b: BigInt::from(0), src_a: produce(&a, h), src_b: String::new() });
            }
        }
    }
    // 1a''. is_prime / factorize exhaustively on 0..=3000 and on the squares and neighbouring products of the
    // primes below 1000 (the trial-division loop's stopping test is exercised exactly at n = p^2)
    {
        let mut primes: Vec<u64> = vec![];
        for n in 2u64..1000 {
            if primes.iter().all(|p| n % p != 0) {
                primes.push(n);
            }
        }
        let mut ns: Vec<u64> = (0u64..=3000).collect();
        for (i, p) in primes.iter().enumerate() {
            ns.push(p * p);
            if let Some(q) = primes.get(i + 1) {
                ns.push(p * q);
            }
            ns.push(p * p + 2);
            ns.push(p * p - 2);
        }
        for n in ns {
            let a = BigInt::from(n);
            for op in ["is_prime", "factorize"] {
                cases.push(Case { kind: "un", op: op.to_string(), a: a.clone(), b: BigInt::from(0), src_a: produce(&a, (n % 3) as u64), src_b: String::new() });
            }
        }
    }
    // 1b. `^` with the cheap bases and every special exponent (incl. 2^31, 2^32 and beyond), both signs
    for (i, e) in specials.iter().enumerate() {
        for (j, base) in [0i64, 1, -1].iter().enumerate() {
            let a = BigInt::from(*base);
            cases.push(Case {
                kind: "bin",
                op: "^".to_string(),
                src_a: produce(&a, ((i + j) % 6) as u64),
                src_b: produce(e, ((i * 5 + j) % 6) as u64),
                a,
                b: e.clone(),
            });
        }
    }
    // 2. random
    while (cases.len() as u64) < n_cases {
        let pick = |rng: &mut Rng| -> BigInt {
            if rng.chance(2, 5) {
                rng.pick(&specials).clone()
            } else {
                random_value(rng, max_bits)
            }
        };
        if rng.chance(1, 6) {
            let op = *rng.pick(UN_OPS);
            let a = pick(&mut rng);
            let h = rng.below(6);
            cases.push(Case { kind: "un", op: op.into(), src_a: produce(&a, h), a, b: BigInt::from(0), src_b: String::new() });
        } else {
            let op = *rng.pick(BIN_OPS);
            let a = pick(&mut rng);
            let mut b = pick(&mut rng);
            if rng.chance(1, 8) {
                b = a.clone() + rng.range(-1, 1);
            }
            if rng.chance(1, 10) && (op == "//" || op == "%%" || op == "%" || op == "/!") {
                // exact multiples exercise `/!`
                b = if b == BigInt::from(0) { b } else { b.clone() };
                let k = random_value(&mut rng, 70);
                let a2 = &b * &k;
                let (h1, h2) = (rng.below(6), rng.below(6));
                cases.push(Case { kind: "bin", op: op.into(), src_a: produce(&a2, h1), src_b: produce(&b, h2), a: a2, b });
                continue;
            }
            let (h1, h2) = (rng.below(6), rng.below(6));
            cases.push(Case { kind: "bin", op: op.into(), src_a: produce(&a, h1), src_b: produce(&b, h2), a, b });
        }
    }

    // filter cases the real code cannot reasonably run (astronomical results)
    let cases: Vec<Case> = cases
        .into_iter()
        .filter(|c| match (c.kind, c.op.as_str()) {
            ("bin", "^") => {
                // bases 0, 1, -1 are cheap for every exponent (also astronomically large ones)
                c.a.abs() <= BigInt::from(1)
                    || (c.b.abs() <= BigInt::from(300) && (c.a.bits() as u64) * c.b.abs().to_u64().unwrap_or(0) <= 200_000)
            }
            ("bin", "<<") => c.b <= BigInt::from(5000) || c.b.bits() > 64,
            ("un", "is_prime") | ("un", "factorize") => c.a.abs() <= BigInt::from(3_000_000),
            _ => true,
        })
        .collect();

    // run the real interpreter
    let mut requests = vec![];
    let mut rust_out = vec![];
    let mut inputs = vec![];
    let mut reps = vec![];
    let mut frozen_diffs: Vec<(String, String, String, String)> = vec![];
    for c in &cases {
        let (src, probe) = if c.kind == "bin" {
            let e = format!("({}) {} ({})", c.src_a, c.op, c.src_b);
            let p = format!("[is_big({}), is_big({})]", c.src_a, c.src_b);
            (e, p)
        } else {
            let e = match c.op.as_str() {
                "neg" => format!("-({})", c.src_a),
                "not" => format!("~({})", c.src_a),
                f => format!("{}({})", f, c.src_a),
            };
            (e, format!("[is_big({}), 0]", c.src_a))
        };
        let (ra, rb) = match interp.eval(&probe) {
            Outcome::Ok(s) => {
                let t: Vec<&str> = s.trim_matches(|ch| ch == '[' || ch == ']').split(',').collect();
                (if t[0] == "1" { "b" } else { "s" }, if t.len() > 1 && t[1] == "1" { "b" } else { "s" })
            }
            o => {
                rep.notes.push(format!("operand probe failed: {} -> {}", probe, o.detail()));
                ("s", "s")
            }
        };
        let out = interp.eval(&src);
        // the constant folder of `freeze` (and of the CLI's warn pass) rewrites unary operators applied to a
        // literal: the folded constant must be the operator's value (reference-only: interpreter vs itself)
        if c.kind == "un" && (c.op == "neg" || c.op == "not") {
            let fsrc = format!("freeze ({})", src);
            let fout = interp.eval(&fsrc);
            if fout.class() != out.class() {
                frozen_diffs.push((c.op.clone(), fsrc, fout.class(), out.class()));
            }
        }
        let res_rep = match &out {
            Outcome::Ok(_) => match interp.eval(&format!("is_big({})", src)) {
                Outcome::Ok(s) if s == "1" => "b",
                Outcome::Ok(_) => "s",
                _ => "-",
            },
            _ => "-",
        };
        let req = if c.kind == "bin" {
            format!("bin {} {}:{} {}:{}", c.op, ra, c.a, rb, c.b)
        } else {
            format!("un {} {}:{}", c.op, ra, c.a)
        };
        let big_rep = ra == "b" || (c.kind == "bin" && rb == "b") || res_rep == "b";
        let lim = BigInt::from(1u64 << 31);
        let nontrivial = big_rep || c.a.abs() > lim || c.b.abs() > lim;
        rep.case(&src, nontrivial);
        rep.arm(&format!("{}:{}{}", c.op, ra, if c.kind == "bin" { rb } else { "" }));
        rep.outcome(match &out {
            Outcome::Ok(_) => "ok",
            Outcome::Throw(_) => "throw",
            Outcome::Panic(_) => "panic",
            _ => "other",
        });
        requests.push(req);
        inputs.push(src);
        rust_out.push(out);
        reps.push(res_rep);
    }

    // the model
    let resp = run_driver(&args.driver, &requests);
    let mut fidelity_drift = 0u64;
    for i in 0..requests.len() {
        let parts: Vec<&str> = resp[i].split('\t').collect();
        if parts.len() < 3 {
            rep.judge("driver", &inputs[i], &rust_out[i].class(), &resp[i], &resp[i]);
            continue;
        }
        let rust = rust_out[i].class();
        let key = {
            let r: Vec<&str> = requests[i].split(' ').collect();
            let reps: String = r[2..].iter().map(|x| &x[0..1]).collect::<Vec<_>>().join(",");
            format!("{}({})", r[1], reps)
        };
        let full_input = format!("{}\nrequest: {}", inputs[i], requests[i]);
        rep.judge(&key, &full_input, &rust, parts[0], parts[1]);
        if parts[2] != reps[i] && reps[i] != "-" && parts[2] != "-" {
            fidelity_drift += 1;
            if rep.fidelity.len() < 20 {
                rep.fidelity.push(format!("{}: result representation rust={} model={}", inputs[i], reps[i], parts[2]));
            }
        }
    }
    rep.notes.push(format!("result-representation drift (diagnostic only): {}", fidelity_drift));
    // vectorised forms: an operator applied to a vector and a scalar (either side) or to two vectors is the
    // operator applied elementwise (reference-only: the interpreter's vector result against its own scalar
    // results, which the sweep above ties to the model)
    {
        let vals: Vec<String> = ["0", "1", "(0-1)", "2", "(0-3)", "7", "9223372036854775807", "(0-9223372036854775807-1)", "(2^64)", "(0-2^64)"]
            .iter().map(|x| x.to_string()).collect();
        let vops = ["+", "-", "*", "//", "%", "%%", "/!", "&", "|", "~", "gcd", "lcm", "==", "<"];
        let mut nvec = 0u64;
        for (i, a1) in vals.iter().enumerate() {
            for (j, b1) in vals.iter().enumerate() {
                let a2 = &vals[(i * 3 + j + 1) % vals.len()];
                let b2 = &vals[(j * 5 + i + 2) % vals.len()];
                for op in vops.iter() {
                    let forms = [
                        (format!("V({}, {}) {} ({})", a1, a2, op, b1), format!("V(({}) {} ({}), ({}) {} ({}))", a1, op, b1, a2, op, b1), "vec-scalar"),
                        (format!("({}) {} V({}, {})", a1, op, b1, b2), format!("V(({}) {} ({}), ({}) {} ({}))", a1, op, b1, a1, op, b2), "scalar-vec"),
                        (format!("V({}, {}) {} V({}, {})", a1, a2, op, b1, b2), format!("V(({}) {} ({}), ({}) {} ({}))", a1, op, b1, a2, op, b2), "vec-vec"),
                    ];
                    for (vsrc, rsrc, shape) in forms.iter() {
                        let want = interp.eval(rsrc);
                        // comparison operators are not elementwise on vectors: only judge when the elementwise
                        // reference itself is what the language defines (arithmetic / bit operators)
                        if *op == "==" || *op == "<" {
                            continue;
                        }
                        let got = interp.eval(vsrc);
                        nvec += 1;
                        rep.case(vsrc, true);
                        rep.arm(&format!("vectorised:{}", shape));
                        if got.class() != want.class() {
                            rep.judge(&format!("vectorised:{}:{}", op, shape), vsrc, &got.class(), &want.class(), &want.class());
                        }
                    }
                }
            }
        }
        rep.notes.push(format!("vectorised forms compared with their elementwise reference: {}", nvec));
    }
    // hashing that ignores the representation, observed the only way a program can observe it: through a
    // hash container.  For every special value that fits a machine word, the value held as a machine word and
    // held in big representation must be ONE key of a set / dict (equal keys with different hashes land in
    // different buckets with overwhelming probability; 8 neighbours per probe make an accidental pass
    // negligible)
    {
        let i64min = -num::pow(BigInt::from(2), 63);
        let i64max = num::pow(BigInt::from(2), 63) - 1;
        let mut nh = 0u64;
        for v in specials.iter().filter(|v| **v >= i64min && **v <= i64max) {
            let small = produce(v, 0);
            let big = produce(v, 2);
            let near: Vec<String> = (1..=8).map(|d| lit(&(v + BigInt::from(d * 1000)))).collect();
            let probes = [
                (format!("len(set([{}, {}, {}]))", small, big, near.join(", ")), "9".to_string()),
                (format!("({}) in {{{}: 1, {}}}", big, small, near.iter().map(|n| format!("{}: 0", n)).collect::<Vec<_>>().join(", ")), "1".to_string()),
                (format!("{{{}: 7, {}}}[{}]", big, near.iter().map(|n| format!("{}: 0", n)).collect::<Vec<_>>().join(", "), small), "7".to_string()),
                (format!("count_distinct([{}, {}, {}, {}])", small, big, big, small), "1".to_string()),
            ];
            for (src, want) in probes.iter() {
                let got = interp.eval(src);
                nh += 1;
                rep.case(src, true);
                rep.arm("hash-container");
                let g = got.class();
                let w = format!("ok {}", want);
                if g != w {
                    rep.judge("hash-container", src, &g, &w, &w);
                }
            }
        }
        rep.notes.push(format!("hash-container probes (machine word vs big representation as one key): {}", nh));
    }
    for (op, fsrc, got, want) in &frozen_diffs {
        rep.case(fsrc, true);
        rep.arm("freeze-fold");
        rep.judge(&format!("freeze-fold:{}", op), fsrc, got, want, want);
    }
    rep.notes.push("unary - and ~ on every generated operand are also evaluated under `freeze` (constant folding) and must give the same value".to_string());
    rep.write(&args.out);
}
