//! Shared machinery of the correspondence harness: PRNG, in-process interpreter runner,
//! canonicaliser, Lean-driver pipe, report writer.  One binary per property lives in src/bin.
pub mod coreast;
pub mod coregen;
use noulith::nnum::NNum;
use noulith::{evaluate, initialize, parse, Env, NErr, Obj, Rc, RefCell, Seq, TopEnv};
use std::collections::BTreeMap;
use std::io::Write;
use std::panic::{catch_unwind, AssertUnwindSafe};
use std::process::{Command, Stdio};
use std::sync::{Arc, Mutex};

// ---------------------------------------------------------------------------------------------
// PRNG: every random choice of a run derives from one SplitMix64 state (VERIF_SEED)
pub struct Rng(pub u64);
impl Rng {
    pub fn new(seed: u64) -> Rng {
        Rng(seed ^ 0x9E3779B97F4A7C15)
    }
    pub fn next(&mut self) -> u64 {
        self.0 = self.0.wrapping_add(0x9E3779B97F4A7C15);
        let mut z = self.0;
        z = (z ^ (z >> 30)).wrapping_mul(0xBF58476D1CE4E5B9);
        z = (z ^ (z >> 27)).wrapping_mul(0x94D049BB133111EB);
        z ^ (z >> 31)
    }
    pub fn below(&mut self, n: u64) -> u64 {
        if n == 0 {
            0
        } else {
            self.next() % n
        }
    }
    pub fn range(&mut self, lo: i64, hi: i64) -> i64 {
        lo + self.below((hi - lo + 1) as u64) as i64
    }
    pub fn chance(&mut self, num: u64, den: u64) -> bool {
        self.below(den) < num
    }
    pub fn pick<'a, T>(&mut self, xs: &'a [T]) -> &'a T {
        &xs[self.below(xs.len() as u64) as usize]
    }
    pub fn fork(&mut self) -> Rng {
        Rng(self.next())
    }
}

// ---------------------------------------------------------------------------------------------
// Command line shared by all property binaries
pub struct Args {
    pub tier: String,
    pub seed: u64,
    pub driver: String,
    pub out: String,
    pub replay: Option<String>,
    pub known: String,
    pub extra: Vec<String>,
}
pub fn parse_args() -> Args {
    let mut a = Args {
        tier: "quick".into(),
        seed: 1,
        driver: String::new(),
        out: String::new(),
        replay: None,
        known: String::new(),
        extra: vec![],
    };
    let v: Vec<String> = std::env::args().skip(1).collect();
    let mut i = 0;
    while i < v.len() {
        let nxt = || v.get(i + 1).cloned().unwrap_or_default();
        match v[i].as_str() {
            "--tier" => {
                a.tier = nxt();
                i += 1
            }
            "--seed" => {
                a.seed = nxt().parse().unwrap_or(1);
                i += 1
            }
            "--driver" => {
                a.driver = nxt();
                i += 1
            }
            "--out" => {
                a.out = nxt();
                i += 1
            }
            "--replay" => {
                a.replay = Some(nxt());
                i += 1
            }
            "--known" => {
                a.known = nxt();
                i += 1
            }
            s => a.extra.push(s.to_string()),
        }
        i += 1;
    }
    a
}

// ---------------------------------------------------------------------------------------------
// Running the real interpreter in-process
#[derive(Clone)]
struct SharedBuf(Arc<Mutex<Vec<u8>>>);
impl Write for SharedBuf {
    fn write(&mut self, b: &[u8]) -> std::io::Result<usize> {
        self.0.lock().unwrap().extend_from_slice(b);
        Ok(b.len())
    }
    fn flush(&mut self) -> std::io::Result<()> {
        Ok(())
    }
}
impl noulith::WriteMaybeExtractable for SharedBuf {}

#[derive(Debug, Clone, PartialEq)]
pub enum Outcome {
    /// evaluation finished with a value; canonical rendering
    Ok(String),
    /// evaluation raised a catchable error (NErr::Throw); message kept for diagnostics only
    Throw(String),
    /// break/continue/return escaped to top level
    Escape(String),
    /// source did not parse
    ParseErr(String),
    /// the interpreter panicked (unwound); payload
    Panic(String),
}
impl Outcome {
    /// class used for comparison: value text, or just the kind of failure
    pub fn class(&self) -> String {
        match self {
            Outcome::Ok(s) => format!("ok {}", s),
            Outcome::Throw(_) => "throw".into(),
            Outcome::Escape(_) => "throw".into(),
            Outcome::ParseErr(_) => "parse-error".into(),
            Outcome::Panic(_) => "panic".into(),
        }
    }
    pub fn detail(&self) -> String {
        match self {
            Outcome::Ok(s) => format!("ok {}", s),
            Outcome::Throw(m) => format!("throw: {}", first_line(m)),
            Outcome::Escape(m) => format!("escape: {}", m),
            Outcome::ParseErr(m) => format!("parse-error: {}", first_line(m)),
            Outcome::Panic(m) => format!("panic: {}", first_line(m)),
        }
    }
}
fn first_line(s: &str) -> String {
    s.lines().next().unwrap_or("").chars().take(200).collect()
}

pub struct Interp {
    pub env: Rc<RefCell<Env>>,
    out: SharedBuf,
}
thread_local! {
    static LAST_PANIC: std::cell::RefCell<String> = std::cell::RefCell::new(String::new());
}
pub fn install_quiet_panic_hook() {
    std::panic::set_hook(Box::new(|info| {
        let loc = info
            .location()
            .map(|l| format!("{}:{}", l.file(), l.line()))
            .unwrap_or_default();
        let msg = if let Some(s) = info.payload().downcast_ref::<&str>() {
            s.to_string()
        } else if let Some(s) = info.payload().downcast_ref::<String>() {
            s.clone()
        } else {
            "?".to_string()
        };
        LAST_PANIC.with(|p| *p.borrow_mut() = format!("{} @ {}", msg, loc));
    }));
}
impl Interp {
    pub fn new() -> Interp {
        let out = SharedBuf(Arc::new(Mutex::new(Vec::new())));
        let mut env = Env::new(
            TopEnv {
                backrefs: Vec::new(),
                input: Box::new(std::io::empty()),
                output: Box::new(out.clone()),
            },
            false,
        );
        initialize(&mut env);
        Interp {
            env: Rc::new(RefCell::new(env)),
            out,
        }
    }
    pub fn take_output(&self) -> String {
        let mut g = self.out.0.lock().unwrap();
        let s = String::from_utf8_lossy(&g).to_string();
        g.clear();
        s
    }
    /// parse + evaluate `src` in this interpreter's top-level scope
    pub fn eval_obj(&self, src: &str) -> Result<Obj, Outcome> {
        let env = self.env.clone();
        let r = catch_unwind(AssertUnwindSafe(|| match parse(src) {
            Err(e) => Err(Outcome::ParseErr(e.render(src))),
            Ok(None) => Ok(Obj::Null),
            Ok(Some(expr)) => match evaluate(&env, &expr) {
                Ok(o) => Ok(o),
                Err(NErr::Throw(o, _)) => Err(Outcome::Throw(format!("{}", o))),
                Err(NErr::Break(n, _)) => Err(Outcome::Escape(format!("break {}", n))),
                Err(NErr::Continue(n)) => Err(Outcome::Escape(format!("continue {}", n))),
                Err(NErr::Return(_)) => Err(Outcome::Escape("return".into())),
            },
        }));
        match r {
            Ok(x) => x,
            Err(_) => Err(Outcome::Panic(LAST_PANIC.with(|p| p.borrow().clone()))),
        }
    }
    pub fn eval(&self, src: &str) -> Outcome {
        match self.eval_obj(src) {
            Ok(o) => match catch_unwind(AssertUnwindSafe(|| canon(&o))) {
                Ok(s) => Outcome::Ok(s),
                Err(_) => Outcome::Panic(LAST_PANIC.with(|p| p.borrow().clone())),
            },
            Err(e) => e,
        }
    }
}
/// one-shot evaluation in a fresh interpreter
pub fn eval_fresh(src: &str) -> Outcome {
    Interp::new().eval(src)
}

// ---------------------------------------------------------------------------------------------
// Canonical rendering of values (the same text format the Lean drivers print)
pub fn hex(bytes: &[u8]) -> String {
    let mut s = String::with_capacity(bytes.len() * 2);
    for b in bytes {
        s.push_str(&format!("{:02x}", b));
    }
    s
}
pub fn unhex(s: &str) -> Vec<u8> {
    (0..s.len() / 2)
        .map(|i| u8::from_str_radix(&s[2 * i..2 * i + 2], 16).unwrap_or(0))
        .collect()
}
pub fn canon_f64(f: f64) -> String {
    if f.is_nan() {
        "f:nan".to_string()
    } else {
        format!("f:{:016x}", f.to_bits())
    }
}
pub fn canon_num(n: &NNum) -> String {
    match n {
        NNum::Int(i) => format!("{}", i),
        NNum::Rational(r) => format!("{}/{}", r.numer(), r.denom()),
        NNum::Float(f) => canon_f64(*f),
        NNum::Complex(z) => format!("c:{}:{}", &canon_f64(z.re)[2..], &canon_f64(z.im)[2..]),
    }
}
pub fn canon(o: &Obj) -> String {
    match o {
        Obj::Null => "null".into(),
        Obj::Num(n) => canon_num(n),
        Obj::Seq(s) => match s {
            Seq::String(s) => format!("s:{}", hex(s.as_bytes())),
            Seq::Bytes(b) => format!("b:{}", hex(b)),
            Seq::List(v) => format!("[{}]", v.iter().map(canon).collect::<Vec<_>>().join(",")),
            Seq::Vector(v) => format!(
                "v[{}]",
                v.iter().map(canon_num).collect::<Vec<_>>().join(",")
            ),
            Seq::Dict(d, def) => {
                let mut items: Vec<(String, String)> = d
                    .iter()
                    .map(|(k, v)| (canon(&noulith::key_to_obj(k.clone())), canon(v)))
                    .collect();
                items.sort();
                let body = items
                    .iter()
                    .map(|(k, v)| format!("{}:{}", k, v))
                    .collect::<Vec<_>>()
                    .join(",");
                match def {
                    None => format!("{{{}}}", body),
                    Some(d) => format!("{{{}}}|d={}", body, canon(d)),
                }
            }
            Seq::Stream(st) => match st.len() {
                None => "stream-inf".into(),
                Some(n) if n > 100_000 => format!("stream-big({})", n),
                Some(_) => match st.force() {
                    Ok(v) => format!(
                        "stream[{}]",
                        v.iter().map(canon).collect::<Vec<_>>().join(",")
                    ),
                    Err(_) => "stream-err".into(),
                },
            },
        },
        Obj::Func(..) => "<func>".into(),
        Obj::Instance(s, fields) => format!(
            "inst:{}({})",
            s.name,
            fields.iter().map(canon).collect::<Vec<_>>().join(",")
        ),
    }
}

// ---------------------------------------------------------------------------------------------
// The Lean driver: one request per line in, one response per line out
pub fn run_driver(driver: &str, requests: &[String]) -> Vec<String> {
    if requests.is_empty() {
        return vec![];
    }
    let mut child = Command::new(driver)
        .stdin(Stdio::piped())
        .stdout(Stdio::piped())
        .stderr(Stdio::inherit())
        .spawn()
        .unwrap_or_else(|e| panic!("cannot start Lean driver {}: {}", driver, e));
    let mut stdin = child.stdin.take().unwrap();
    let body = requests.join("\n") + "\n";
    let writer = std::thread::spawn(move || {
        let _ = stdin.write_all(body.as_bytes());
    });
    let out = child.wait_with_output().expect("driver failed");
    let _ = writer.join();
    let text = String::from_utf8_lossy(&out.stdout).to_string();
    let lines: Vec<String> = text.lines().map(|s| s.to_string()).collect();
    if lines.len() != requests.len() {
        eprintln!(
            "driver returned {} lines for {} requests (status {:?})",
            lines.len(),
            requests.len(),
            out.status
        );
        let mut l = lines;
        l.resize(requests.len(), "driver-missing".to_string());
        return l;
    }
    lines
}

// ---------------------------------------------------------------------------------------------
// Report: what the run covered and every disagreement, as JSON for the orchestrator
#[derive(Default)]
pub struct Report {
    pub property: String,
    pub tier: String,
    pub seed: u64,
    pub evaluations: u64,
    pub distinct: std::collections::HashSet<String>,
    pub rule: String,
    pub samples: Vec<String>,
    pub arms: BTreeMap<String, u64>,
    pub outcomes: BTreeMap<String, u64>,
    pub disagreements: Vec<Disagreement>,
    pub notes: Vec<String>,
    pub fidelity: Vec<String>,
}
#[derive(Clone)]
pub struct Disagreement {
    /// "property" = real code differs from the Spec on an input inside the quantifier;
    /// "correspondence" = real code differs from the Impl model but agrees with the Spec
    pub kind: String,
    /// stable identification of the failing call site / input class (matched against
    /// known_findings.txt)
    pub key: String,
    pub input: String,
    pub rust: String,
    pub impl_: String,
    pub spec: String,
}
impl Report {
    pub fn new(property: &str, a: &Args) -> Report {
        Report {
            property: property.to_string(),
            tier: a.tier.clone(),
            seed: a.seed,
            ..Default::default()
        }
    }
    pub fn arm(&mut self, name: &str) {
        *self.arms.entry(name.to_string()).or_insert(0) += 1;
    }
    pub fn outcome(&mut self, name: &str) {
        *self.outcomes.entry(name.to_string()).or_insert(0) += 1;
    }
    /// record one evaluated case; `nontrivial` cases are counted once per distinct `input`
    pub fn case(&mut self, input: &str, nontrivial: bool) {
        self.evaluations += 1;
        if nontrivial {
            self.distinct.insert(input.to_string());
        }
        if self.samples.len() < 12 && (self.evaluations % 97 == 1 || self.samples.len() < 3) {
            self.samples.push(input.to_string());
        }
    }
    /// Compare the three answers for one input and file a disagreement if needed.
    /// Returns true when everything agrees.
    pub fn judge(&mut self, key: &str, input: &str, rust: &str, impl_: &str, spec: &str) -> bool {
        if rust == spec && rust == impl_ {
            return true;
        }
        let kind = if rust != spec { "property" } else { "correspondence" };
        if self.disagreements.len() < 400 {
            self.disagreements.push(Disagreement {
                kind: kind.into(),
                key: key.into(),
                input: input.into(),
                rust: rust.into(),
                impl_: impl_.into(),
                spec: spec.into(),
            });
        }
        false
    }
    pub fn write(&self, path: &str) {
        use serde_json::json;
        let dis: Vec<_> = self
            .disagreements
            .iter()
            .map(|d| {
                json!({"kind": d.kind, "key": d.key, "input": d.input, "rust": d.rust,
                       "impl": d.impl_, "spec": d.spec})
            })
            .collect();
        let j = json!({
            "property": self.property, "tier": self.tier, "seed": self.seed,
            "evaluations": self.evaluations, "distinct_nontrivial": self.distinct.len(),
            "rule": self.rule, "samples": self.samples, "arms": self.arms,
            "outcomes": self.outcomes, "disagreements": dis, "notes": self.notes,
            "fidelity": self.fidelity,
        });
        let text = serde_json::to_string_pretty(&j).unwrap();
        if path.is_empty() {
            println!("{}", text);
        } else {
            std::fs::write(path, text).expect("cannot write report");
        }
    }
}

/// split a driver response "impl=<x> spec=<y>" (x, y contain no spaces... they may: use tab)
pub fn split_resp(line: &str) -> (String, String) {
    let mut parts = line.splitn(2, '\t');
    let a = parts.next().unwrap_or("").to_string();
    let b = parts.next().unwrap_or("").to_string();
    (a, b)
}
