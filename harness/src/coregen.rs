//! Typed random generator of core-language programs (C05, C17): mostly-valid programs over
//! sequencing, if/else, while, multi-clause for (element / item iteration, mid-loop declarations,
//! guards, yield, yield k: v, into), break/continue with counts and values, return, try/catch/throw,
//! and/or/coalesce, lambdas with defaults and splats, type-annotated lambda parameters (builtin type
//! names, user variables holding types, side-effecting / mismatching / non-type / unbound annotations,
//! assignments that violate the declared type), closures escaping their scope, closures created per
//! loop iteration, eval; plus a stream of deliberately ill-formed programs.
use crate::coreast::*;
use crate::Rng;

#[derive(Clone, PartialEq, Debug)]
pub enum Ty {
    Int,
    Str,
    List,    // list of ints
    Fun0,    // () -> int
    Fun1,    // (int) -> int
    Maker,   // () -> Fun0
    FunList, // list of Fun0
    Dict,    // result of `yield k: v` (only dumped at the end)
    Type,    // a variable holding a type (`t := int`); used in parameter annotations, never dumped
}

#[derive(Clone)]
struct Var {
    name: String,
    ty: Ty,
}

pub struct Gen {
    pub rng: Rng,
    frames: Vec<Vec<Var>>,
    counter: usize,
    loop_depth: usize,
    in_lambda: usize,
    budget: i64,
    pub features: std::collections::BTreeSet<&'static str>,
    pub faulty: bool,
    pub max_depth: u32,
    pub allow_eval: bool,
    pub allow_splat: bool,
    readonly: std::collections::HashSet<String>,
    try_depth: usize,
    pub no_self_shadow: bool,
    last_header_names: Vec<String>,
    /// which builtin type each `Ty::Type` variable holds (type variables are never reassigned by
    /// generated statements; the C17 case reassigns the outer ones by hand between the calls)
    type_held: std::collections::HashMap<String, &'static str>,
    /// > 0 while generating the right operand of `++` / `$` / `*` (or the right-hand side of the
    /// corresponding op-assignment) inside a loop or a function body: no variable is mentioned there, so
    /// that `x = x ++ x`, `s $= s`, `n *= n` cannot double a value on every iteration (one interpreter
    /// step each: the step budget does not bound the memory; seen: 64 GB)
    no_grow_vars: u32,
    /// C17 mode: an unbound name in an annotation makes the freeze fail; only the must-fail kinds do that
    no_unbound_ann: bool,
}

const STRS: &[&str] = &["a", "bc", "", "xyz", "q"];

impl Gen {
    pub fn new(rng: Rng, max_depth: u32) -> Gen {
        Gen {
            rng,
            frames: vec![vec![]],
            counter: 0,
            loop_depth: 0,
            in_lambda: 0,
            budget: 60,
            features: Default::default(),
            faulty: false,
            max_depth,
            allow_eval: true,
            allow_splat: true,
            readonly: Default::default(),
            try_depth: 0,
            no_self_shadow: false,
            last_header_names: vec![],
            type_held: Default::default(),
            no_grow_vars: 0,
            no_unbound_ann: false,
        }
    }
    fn feat(&mut self, f: &'static str) {
        self.features.insert(f);
    }
    fn fresh(&mut self) -> String {
        self.counter += 1;
        format!("v{}", self.counter)
    }
    fn vars_of(&self, ty: &Ty) -> Vec<String> {
        // innermost declaration of each name wins (shadowing)
        let mut seen = std::collections::HashSet::new();
        let mut out = vec![];
        for fr in self.frames.iter().rev() {
            for v in fr.iter().rev() {
                if seen.insert(v.name.clone()) && &v.ty == ty {
                    out.push(v.name.clone());
                }
            }
        }
        out
    }
    fn pick_var(&mut self, ty: &Ty) -> Option<String> {
        if self.no_grow_vars > 0 && *ty != Ty::Type {
            return None;
        }
        let vs = self.vars_of(ty);
        if vs.is_empty() {
            None
        } else {
            Some(vs[self.rng.below(vs.len() as u64) as usize].clone())
        }
    }
    /// a variable that may be assigned to (loop counters may not: the loops must terminate)
    fn pick_assignable(&mut self, ty: &Ty) -> Option<String> {
        let vs: Vec<String> = self.vars_of(ty).into_iter().filter(|v| !self.readonly.contains(v)).collect();
        if vs.is_empty() {
            None
        } else {
            Some(vs[self.rng.below(vs.len() as u64) as usize].clone())
        }
    }
    fn declare(&mut self, name: &str, ty: Ty) {
        self.frames.last_mut().unwrap().push(Var { name: name.to_string(), ty });
    }
    /// run `f` in a context whose declarations may not be relied upon afterwards
    fn conditional<T>(&mut self, f: impl FnOnce(&mut Gen) -> T) -> T {
        let lens: Vec<usize> = self.frames.iter().map(|fr| fr.len()).collect();
        let r = f(self);
        for (fr, l) in self.frames.iter_mut().zip(lens) {
            fr.truncate(l);
        }
        r
    }
    /// run `f` with variable references switched off if we are inside a loop or a function body
    fn bounded<T>(&mut self, f: impl FnOnce(&mut Gen) -> T) -> T {
        let guard = self.loop_depth > 0 || self.in_lambda > 0;
        if guard {
            self.no_grow_vars += 1;
        }
        let r = f(self);
        if guard {
            self.no_grow_vars -= 1;
        }
        r
    }
    fn in_frame<T>(&mut self, f: impl FnOnce(&mut Gen) -> T) -> T {
        self.frames.push(vec![]);
        let r = f(self);
        self.frames.pop();
        r
    }

    // ---------------------------------------------------------------- expressions
    fn small_int(&mut self) -> i64 {
        *self.rng.pick(&[0, 1, 2, 3, 5, 7, 10, -1, -4])
    }
    pub fn gen_int(&mut self, d: u32) -> Expr {
        self.budget -= 1;
        if d == 0 || self.budget <= 0 {
            if self.rng.chance(1, 2) {
                if let Some(v) = self.pick_var(&Ty::Int) {
                    return Expr::Ident(v);
                }
            }
            return Expr::Int(self.small_int());
        }
        match self.rng.below(23) {
            0 | 1 => Expr::Int(self.small_int()),
            2 | 3 => match self.pick_var(&Ty::Int) {
                Some(v) => Expr::Ident(v),
                None => Expr::Int(self.small_int()),
            },
            4 | 5 | 6 => {
                let o = *self.rng.pick(&["+", "-", "*"]);
                let x = self.gen_int(d - 1);
                let y = if o == "*" { self.bounded(|g| g.gen_int(d - 1)) } else { self.gen_int(d - 1) };
                if self.rng.chance(1, 8) {
                    // operators are ordinary functions: call form `-(a, b)`
                    self.feat("op-call-form");
                    Expr::Call(b(Expr::Ident(o.into())), vec![x, y])
                } else {
                    Expr::Op(o.into(), b(x), b(y))
                }
            }
            7 => {
                let o = *self.rng.pick(&["//", "%"]);
                let div = if self.rng.chance(1, 12) { 0 } else { *self.rng.pick(&[1, 2, 3, -2, 7]) };
                Expr::Op(o.into(), b(self.gen_int(d - 1)), b(Expr::Int(div)))
            }
            8 => Expr::Call(b(Expr::Ident("len".into())), vec![self.gen_list(d - 1)]),
            9 => {
                let i = *self.rng.pick(&[0, 0, 1, -1, 2, -2, 5]);
                let e = Expr::Index(b(self.gen_list(d - 1)), b(Expr::Int(i)));
                if self.try_depth > 0 || self.rng.chance(1, 6) {
                    e
                } else {
                    Expr::Try(b(e), Pat::Underscore, b(Expr::Int(-8)))
                }
            }
            10 => {
                let f = self.gen_fun0(d - 1);
                self.feat("call0");
                Expr::Call(b(f), vec![])
            }
            11 => {
                let f = self.gen_fun1(d - 1);
                self.feat("call1");
                Expr::Call(b(f), vec![self.gen_int(d - 1)])
            }
            12 => {
                let c = self.gen_cond(d - 1);
                let t = self.conditional(|g| g.gen_int(d - 1));
                let e = self.conditional(|g| g.gen_int(d - 1));
                Expr::If(b(c), b(t), Some(b(e)))
            }
            13 => {
                self.feat("and/or");
                let a = self.gen_int(d - 1);
                let bb = self.conditional(|g| g.gen_int(d - 1));
                if self.rng.chance(1, 2) {
                    Expr::And(b(a), b(bb))
                } else {
                    Expr::Or(b(a), b(bb))
                }
            }
            14 => {
                self.feat("coalesce");
                let a = if self.rng.chance(1, 2) { Expr::Null } else { self.gen_int(d - 1) };
                let bb = self.conditional(|g| g.gen_int(d - 1));
                Expr::Coalesce(b(a), b(bb))
            }
            15 => {
                // (stmt; stmt; int) evaluated in the current scope
                let n = 1 + self.rng.below(2);
                let mut xs = vec![];
                for _ in 0..n {
                    xs.push(self.gen_stmt(d - 1));
                }
                xs.push(self.gen_int(d - 1));
                Expr::Seq(xs, false)
            }
            16 => {
                if self.rng.chance(1, 3) {
                    return self.gen_try_local(d - 1);
                }
                if self.rng.chance(1, 4) {
                    return self.gen_try_rethrow(d - 1);
                }
                self.feat("try-expr");
                let body = self.conditional(|g| g.gen_throwing_int(d - 1));
                let (p, c) = self.gen_catch(d - 1);
                Expr::Try(b(body), p, b(c))
            }
            17 | 18 => self.gen_for_int(d - 1),
            19 => {
                // a loop whose value is a break value or null
                self.feat("break-value");
                let lst = self.gen_iteratee(d - 1);
                let x = self.fresh();
                let body = self.in_frame(|g| {
                    g.declare(&x, Ty::Int);
                    g.loop_depth += 1;
                    let c = g.gen_cond(d - 1);
                    let v = g.gen_int(d - 1);
                    g.loop_depth -= 1;
                    Expr::If(b(c), b(Expr::Break(0, Some(b(v)))), None)
                });
                let lp = Expr::For(vec![ForIt::Iter(IterKind::Normal, Pat::Ident(x), lst)], ForBody::Exec(b(body)));
                Expr::Coalesce(b(lp), b(Expr::Int(-7)))
            }
            21 => {
                // switch: literal arms, then (usually) a binding or wildcard catch-all; each arm has its
                // own scope
                self.feat("switch");
                let sc = self.gen_int(d - 1);
                let narms = 1 + self.rng.below(3);
                let mut arms = vec![];
                for _ in 0..narms {
                    let lit = *self.rng.pick(&[0, 1, 2, 3, 5, 7]);
                    let body = self.in_frame(|g| g.conditional(|g| g.gen_int(d - 1)));
                    arms.push((Pat::Lit(lit), body));
                }
                match self.rng.below(4) {
                    0 => {
                        self.feat("switch-no-catch-all");
                    }
                    1 => {
                        let body = self.in_frame(|g| g.conditional(|g| g.gen_int(d - 1)));
                        arms.push((Pat::Underscore, body));
                    }
                    _ => {
                        // a binding arm; sometimes it shadows an outer variable's name
                        let x = match self.pick_assignable(&Ty::Int) {
                            Some(v) if self.rng.chance(1, 3) => {
                                self.feat("switch-arm-shadows");
                                v
                            }
                            _ => self.fresh(),
                        };
                        let body = self.in_frame(|g| {
                            g.declare(&x, Ty::Int);
                            g.conditional(|g| g.gen_int(d - 1))
                        });
                        arms.push((Pat::Ident(x), body));
                    }
                }
                let e = Expr::Switch(b(sc), arms);
                if self.try_depth > 0 {
                    e
                } else {
                    Expr::Try(b(e), Pat::Underscore, b(Expr::Int(-6)))
                }
            }
            20 if self.allow_eval => {
                self.feat("eval");
                Expr::EvalSrc(b(self.gen_int(d - 1)))
            }
            _ => {
                let o = *self.rng.pick(&["+", "-"]);
                Expr::Op(o.into(), b(self.gen_int(d - 1)), b(self.gen_int(d - 1)))
            }
        }
    }
    /// an int expression that may raise (user throw of a small int, or a builtin error)
    fn gen_throwing_int(&mut self, d: u32) -> Expr {
        match self.rng.below(5) {
            0 => Expr::Seq(vec![Expr::Throw(b(Expr::Int(*self.rng.pick(&[1, 2, 3])))), Expr::Int(0)], false),
            1 => {
                let c = self.gen_cond(d);
                Expr::Seq(
                    vec![Expr::If(b(c), b(Expr::Throw(b(Expr::Int(*self.rng.pick(&[1, 2, 3]))))), None), self.gen_int(d)],
                    false,
                )
            }
            2 => Expr::Op("+".into(), b(self.gen_int(d)), b(Expr::Str("s".into()))),
            3 => Expr::Index(b(self.gen_list(d)), b(Expr::Int(9))),
            _ => self.gen_int(d),
        }
    }
    /// an inner `try` whose refutable catch pattern (a literal or a two-name sequence) may not match the
    /// thrown value: the ORIGINAL value must travel on to the outer handler, which inspects it
    fn gen_try_rethrow(&mut self, d: u32) -> Expr {
        self.feat("try-rethrow-unmatched");
        let thrown = *self.rng.pick(&[1i64, 2, 3]);
        let c = self.gen_cond(d);
        let fallback = self.gen_int(d);
        let inner_body = Expr::Seq(vec![Expr::If(b(c), b(Expr::Throw(b(Expr::Int(thrown)))), None), fallback], false);
        let (ip, ic) = if self.rng.chance(1, 2) {
            (Pat::Lit(*self.rng.pick(&[1i64, 2, 3])), self.in_frame(|g| g.conditional(|g| g.gen_int(d))))
        } else {
            let (x, y) = (self.fresh(), self.fresh());
            (Pat::Seq(vec![Pat::Ident(x.clone()), Pat::Ident(y)]), Expr::Ident(x))
        };
        let inner = Expr::Try(b(inner_body), ip, b(ic));
        let e = self.fresh();
        // the outer handler returns a value computed from the caught value
        let k = self.small_int();
        let outer_handler = Expr::Op("+".into(), b(Expr::Op("*".into(), b(Expr::Ident(e.clone())), b(Expr::Int(100)))), b(Expr::Int(k)));
        Expr::Try(b(inner), Pat::Ident(e), b(outer_handler))
    }
    /// `try (q := safe; …may raise…) catch e -> …reads / assigns q…`: the try body runs in the enclosing
    /// scope, so a name it declares (always, first thing) is visible to the handler and afterwards
    fn gen_try_local(&mut self, d: u32) -> Expr {
        self.feat("try-local-in-handler");
        let q = self.fresh();
        let init = match self.pick_var(&Ty::Int) {
            Some(v) if self.rng.chance(1, 2) => Expr::Ident(v),
            _ => Expr::Int(self.small_int()),
        };
        self.declare(&q, Ty::Int);
        self.try_depth += 1;
        let rest = self.conditional(|g| {
            let mut xs = vec![];
            if g.rng.chance(1, 2) {
                xs.push(Expr::OpAssign(q.clone(), "+".into(), b(g.gen_int(d))));
            }
            xs.push(g.gen_throwing_int(d));
            xs
        });
        self.try_depth -= 1;
        let mut body = vec![Expr::Declare(Pat::Ident(q.clone()), b(init))];
        body.extend(rest);
        let e = self.fresh();
        let handler = self.in_frame(|g| {
            g.conditional(|g| {
                let a = g.gen_int(d);
                let mut xs = vec![];
                if g.rng.chance(1, 2) {
                    xs.push(Expr::Assign(q.clone(), b(Expr::Op("+".into(), b(Expr::Ident(q.clone())), b(a.clone())))));
                }
                xs.push(Expr::If(
                    b(Expr::Op("==".into(), b(Expr::Ident(e.clone())), b(Expr::Int(*g.rng.pick(&[1, 2, 3]))))),
                    b(Expr::Op("+".into(), b(Expr::Ident(q.clone())), b(a))),
                    Some(b(Expr::Ident(q.clone()))),
                ));
                Expr::Seq(xs, false)
            })
        });
        Expr::Try(b(Expr::Seq(body, false)), Pat::Ident(e), b(handler))
    }
    fn gen_catch(&mut self, d: u32) -> (Pat, Expr) {
        // catch clause: fresh scope; the caught value is only compared with ints
        match self.rng.below(4) {
            0 => {
                let n = *self.rng.pick(&[1, 2, 3]);
                self.feat("catch-literal");
                (Pat::Lit(n), self.in_frame(|g| g.conditional(|g| g.gen_int(d))))
            }
            1 => (Pat::Underscore, self.in_frame(|g| g.conditional(|g| g.gen_int(d)))),
            _ => {
                // the catch clause binds in its own fresh scope: the same name may be used by several try
                // statements of one scope (shadowing an existing variable is left to the C14 templates: the typed generator would then read the caught error VALUE through the shadowed name, and error values are not compared)
                let e = match self.rng.below(4) {
                    0 => {
                        self.feat("catch-name-reused");
                        "cerr".to_string()
                    }
                    _ => self.fresh(),
                };
                let body = self.in_frame(|g| {
                    g.conditional(|g| {
                        let a = g.gen_int(d);
                        let bb = g.gen_int(d);
                        Expr::If(
                            b(Expr::Op("==".into(), b(Expr::Ident(e.clone())), b(Expr::Int(*g.rng.pick(&[1, 2, 3]))))),
                            b(a),
                            Some(b(bb)),
                        )
                    })
                });
                (Pat::Ident(e), body)
            }
        }
    }
    fn gen_for_header(&mut self, d: u32, declare_in: &mut dyn FnMut(&mut Gen)) -> Vec<ForIt> {
        // NOTE: caller pushes the frame; header clauses declare into it (one frame stands for the
        // chain of per-binding frames: names are unique so the difference is unobservable here)
        let mut its = vec![];
        let nclauses = 1 + self.rng.below(3);
        let mut header_names: Vec<String> = vec![];
        for ci in 0..nclauses {
            match if ci == 0 { if self.rng.chance(1, 5) { 2 } else { 0 } } else { self.rng.below(4) } {
                0 | 1 => {
                    // (C17 mode: declarations made inside an iteratee expression are not relied upon
                    // afterwards - freeze treats them as loop-local, known finding F30)
                    let mut lst = self.gen_iteratee(d);
                    if self.loop_depth > 0 && self.rng.chance(1, 8) {
                        // a `continue` / `break` evaluated by a header clause is not absorbed by THIS loop: it
                        // leaves it and is received by the enclosing one
                        self.feat("for-clause-exit");
                        let n = self.rng.below(self.loop_depth as u64) as usize;
                        let c = self.conditional(|g| g.gen_cond(d));
                        let exit = if self.rng.chance(2, 3) { Expr::Continue(n) } else { Expr::Break(n, None) };
                        lst = Expr::If(b(c), b(exit), Some(b(lst)));
                    }
                    if self.rng.chance(1, 4) {
                        self.feat("for-item");
                        let (k, v) = (self.fresh(), self.fresh());
                        its.push(ForIt::Iter(IterKind::Item, Pat::Seq(vec![Pat::Ident(k.clone()), Pat::Ident(v.clone())]), lst));
                        self.declare(&k, Ty::Int);
                        self.declare(&v, Ty::Int);
                    } else {
                        let x = self.fresh();
                        its.push(ForIt::Iter(IterKind::Normal, Pat::Ident(x.clone()), lst));
                        self.declare(&x, Ty::Int);
                        header_names.push(x);
                    }
                }
                2 => {
                    self.feat("for-declare");
                    // each clause binds in its own fresh scope: a declaration may reuse (shadow) the name
                    // of an earlier clause, and its initialiser still sees the earlier binding
                    let e = if self.no_self_shadow { self.conditional(|g| g.gen_int(d)) } else { self.gen_int(d) };
                    let x = if !header_names.is_empty() && self.rng.chance(1, 3) {
                        self.feat("for-declare-shadows-clause");
                        self.rng.pick(&header_names).clone()
                    } else {
                        self.fresh()
                    };
                    its.push(ForIt::Iter(IterKind::Declare, Pat::Ident(x.clone()), e));
                    self.declare(&x, Ty::Int);
                    header_names.push(x);
                }
                _ => {
                    self.feat("for-guard");
                    let mut c = self.gen_cond(d);
                    if self.loop_depth > 0 && self.rng.chance(1, 5) {
                        self.feat("for-clause-exit");
                        let n = self.rng.below(self.loop_depth as u64) as usize;
                        let c2 = self.conditional(|g| g.gen_cond(d));
                        let exit = if self.rng.chance(2, 3) { Expr::Continue(n) } else { Expr::Break(n, None) };
                        c = Expr::If(b(c2), b(exit), Some(b(c)));
                    }
                    its.push(ForIt::Guard(c));
                }
            }
        }
        declare_in(self);
        self.last_header_names = header_names;
        its
    }
    fn gen_for_int(&mut self, d: u32) -> Expr {
        self.feat("yield-into");
        self.in_frame(|g| {
            let its = g.gen_for_header(d, &mut |_| {});
            g.loop_depth += 1;
            let body = g.gen_int(d);
            g.loop_depth -= 1;
            let into = *g.rng.pick(&["sum", "sum", "first", "last", "max", "min", "count", "len"]);
            let e = Expr::For(its, ForBody::Yield(b(body), Some(b(Expr::Ident(into.into())))));
            // first/last/max/min raise on an empty loop
            if matches!(into, "first" | "last" | "max" | "min") {
                Expr::Try(b(e), Pat::Underscore, b(Expr::Int(-9)))
            } else {
                e
            }
        })
    }
    pub fn gen_str(&mut self, d: u32) -> Expr {
        self.budget -= 1;
        if d == 0 || self.budget <= 0 || self.rng.chance(1, 3) {
            if self.rng.chance(1, 2) {
                if let Some(v) = self.pick_var(&Ty::Str) {
                    return Expr::Ident(v);
                }
            }
            return Expr::Str(self.rng.pick(STRS).to_string());
        }
        let a = if self.rng.chance(1, 2) { self.gen_int(d - 1) } else { self.gen_str(d - 1) };
        let bb = self.bounded(|g| if g.rng.chance(1, 2) { g.gen_int(d - 1) } else { g.gen_str(d - 1) });
        Expr::Op("$".into(), b(a), b(bb))
    }
    pub fn gen_list(&mut self, d: u32) -> Expr {
        self.budget -= 1;
        if d == 0 || self.budget <= 0 {
            if self.rng.chance(1, 2) {
                if let Some(v) = self.pick_var(&Ty::List) {
                    return Expr::Ident(v);
                }
            }
            let n = self.rng.below(4);
            return Expr::List((0..n).map(|_| Expr::Int(self.small_int())).collect());
        }
        match self.rng.below(7) {
            0 | 1 => {
                let n = self.rng.below(4);
                Expr::List((0..n).map(|_| self.gen_int(d - 1)).collect())
            }
            2 => match self.pick_var(&Ty::List) {
                Some(v) => Expr::Ident(v),
                None => Expr::List(vec![Expr::Int(1), Expr::Int(2)]),
            },
            3 => {
                let l = self.gen_list(d - 1);
                let r = self.bounded(|g| g.gen_list(d - 1));
                Expr::Op("++".into(), b(l), b(r))
            }
            4 | 5 => {
                self.feat("yield");
                self.in_frame(|g| {
                    let its = g.gen_for_header(d - 1, &mut |_| {});
                    g.loop_depth += 1;
                    let body = g.gen_int(d - 1);
                    g.loop_depth -= 1;
                    let into = if g.rng.chance(1, 4) {
                        g.feat("yield-into-lambda");
                        let l = g.fresh();
                        let ann = g.gen_ann_safe(&Ty::List);
                        Some(b(Expr::Lambda(
                            vec![Param { name: l.clone(), dflt: None, splat: false, ann }],
                            b(Expr::Op("++".into(), b(Expr::Ident(l)), b(Expr::List(vec![Expr::Int(0)])))),
                        )))
                    } else {
                        None
                    };
                    Expr::For(its, ForBody::Yield(b(body), into))
                })
            }
            _ => Expr::List(vec![self.gen_int(d - 1)]),
        }
    }
    /// the sequence a `for` clause iterates over
    fn gen_iteratee(&mut self, d: u32) -> Expr {
        if self.no_self_shadow {
            self.conditional(|g| g.gen_list(d))
        } else {
            self.gen_list(d)
        }
    }
    pub fn gen_cond(&mut self, d: u32) -> Expr {
        self.budget -= 1;
        let d1 = d.saturating_sub(1);
        match self.rng.below(8) {
            0 | 1 | 2 | 3 => {
                let o = *self.rng.pick(&["==", "!=", "<", "<=", ">", ">="]);
                Expr::Op(o.into(), b(self.gen_int(d1)), b(self.gen_int(d1)))
            }
            4 => Expr::Op("==".into(), b(self.gen_str(d1)), b(self.gen_str(d1))),
            5 if d > 0 => {
                let a = self.gen_cond(d1);
                let bb = self.conditional(|g| g.gen_cond(d1));
                if self.rng.chance(1, 2) {
                    Expr::And(b(a), b(bb))
                } else {
                    Expr::Or(b(a), b(bb))
                }
            }
            6 => self.gen_list(d1),
            _ => self.gen_int(d1),
        }
    }
    // ---------------------------------------------------------------- parameter annotations
    /// builtin type names a value of generator type `ty` satisfies
    fn type_names_for(ty: &Ty) -> &'static [&'static str] {
        match ty {
            Ty::Int => &["int", "int", "number", "anything"],
            Ty::Str => &["str", "str", "anything"],
            Ty::List | Ty::FunList => &["list", "list", "anything"],
            Ty::Fun0 | Ty::Fun1 | Ty::Maker => &["func", "anything"],
            Ty::Dict => &["dict", "anything"],
            Ty::Type => &["type", "func", "anything"],
        }
    }
    const ALL_TYPE_NAMES: &'static [&'static str] = &["int", "number", "str", "list", "dict", "func", "type", "anything", "nulltype"];
    fn type_name_matches(name: &str, ty: &Ty) -> bool {
        Self::type_names_for(ty).contains(&name)
    }
    /// an annotation expression that a value of type `want` satisfies: a builtin type name or a variable
    /// in scope that holds a suitable type; sometimes wrapped so that its evaluation is observable
    fn gen_ann_ok(&mut self, want: &Ty) -> Expr {
        let held: Vec<String> = self
            .vars_of(&Ty::Type)
            .into_iter()
            .filter(|v| self.type_held.get(v).map_or(false, |n| Self::type_name_matches(n, want)))
            .collect();
        let e = if !held.is_empty() && self.rng.chance(2, 3) {
            self.feat("ann-type-variable");
            Expr::Ident(held[self.rng.below(held.len() as u64) as usize].clone())
        } else {
            self.feat("ann-builtin-type");
            Expr::Ident(self.rng.pick(Self::type_names_for(want)).to_string())
        };
        self.ann_wrap(e)
    }
    fn ann_wrap(&mut self, e: Expr) -> Expr {
        if self.rng.chance(1, 6) {
            self.feat("ann-side-effect");
            Expr::Seq(vec![Expr::Call(b(Expr::Ident("print".into())), vec![Expr::Str("T".into())]), e], false)
        } else {
            e
        }
    }
    /// an annotation that makes the call raise: another type, `null` (the null type), something that is
    /// not a type, or a name that does not exist (name error at call time, at freeze time when frozen)
    fn gen_ann_bad(&mut self, want: &Ty) -> Expr {
        let e = match self.rng.below(if self.no_unbound_ann { 4 } else { 5 }) {
            0 | 1 => {
                self.feat("ann-mismatch");
                let others: Vec<&'static str> =
                    Self::ALL_TYPE_NAMES.iter().cloned().filter(|n| !Self::type_name_matches(n, want)).collect();
                let held: Vec<String> = self
                    .vars_of(&Ty::Type)
                    .into_iter()
                    .filter(|v| self.type_held.get(v).map_or(false, |n| !Self::type_name_matches(n, want)))
                    .collect();
                if !held.is_empty() && self.rng.chance(1, 2) {
                    Expr::Ident(held[self.rng.below(held.len() as u64) as usize].clone())
                } else {
                    Expr::Ident(self.rng.pick(&others).to_string())
                }
            }
            2 => {
                self.feat("ann-null-type");
                Expr::Null
            }
            3 => {
                self.feat("ann-not-a-type");
                match self.rng.below(3) {
                    0 => Expr::Int(self.small_int()),
                    1 => Expr::Str("int".into()),
                    _ => match self.pick_var(&Ty::Int) {
                        Some(v) => Expr::Ident(v),
                        None => Expr::List(vec![]),
                    },
                }
            }
            _ => {
                self.feat("ann-unbound-name");
                Expr::Ident("zz_no_such_type".into())
            }
        };
        self.ann_wrap(e)
    }
    /// annotation for a parameter of a lambda whose calls are NOT guarded: none (mostly) or a fitting one
    fn gen_ann_safe(&mut self, want: &Ty) -> Option<Expr> {
        if self.rng.chance(2, 5) {
            Some(self.gen_ann_ok(want))
        } else {
            None
        }
    }
    /// annotation for a parameter of a lambda whose calls are guarded by `try`
    fn gen_ann_any(&mut self, want: &Ty) -> Option<Expr> {
        match self.rng.below(10) {
            0 | 1 | 2 => None,
            3 | 4 => Some(self.gen_ann_bad(want)),
            _ => Some(self.gen_ann_ok(want)),
        }
    }
    /// `tN := <type>`: a variable holding a type, for later parameter annotations
    fn gen_type_decl(&mut self) -> Expr {
        self.feat("type-variable");
        let t = self.fresh();
        let name: &'static str = *self.rng.pick(&["int", "int", "str", "list", "anything", "number", "func"]);
        self.declare(&t, Ty::Type);
        self.readonly.insert(t.clone());
        self.type_held.insert(t.clone(), name);
        Expr::Declare(Pat::Ident(t), b(Expr::Ident(name.into())))
    }
    /// a function with one typed parameter whose body assigns to it: the declared type stays attached to
    /// the variable, so an assignment of another kind raises (and a failed op-assignment leaves null);
    /// every violation is caught inside the body, the function returns `[p]`
    fn gen_typed_param_stmt(&mut self, d: u32) -> Expr {
        self.feat("typed-param-assign");
        let (f, p) = (self.fresh(), self.fresh());
        let want = if self.rng.chance(3, 4) { Ty::Int } else { Ty::Str };
        let ann = if self.rng.chance(1, 8) { self.gen_ann_bad(&want) } else { self.gen_ann_ok(&want) };
        let id = |s: &str| Expr::Ident(s.to_string());
        let print = |s: &str| Expr::Call(b(id("print")), vec![Expr::Str(s.to_string())]);
        let n = 1 + self.rng.below(3);
        let mut xs = vec![];
        for i in 0..n {
            let tag = format!("c{}", i);
            let int_rhs = Expr::Int(self.small_int());
            let str_rhs = Expr::Str(self.rng.pick(STRS).to_string());
            let st = match self.rng.below(6) {
                0 => Expr::Assign(p.clone(), b(if want == Ty::Int { str_rhs } else { int_rhs })),
                1 => Expr::Assign(p.clone(), b(if want == Ty::Int { int_rhs } else { str_rhs })),
                2 => Expr::OpAssign(p.clone(), "$".into(), b(str_rhs)),
                3 => Expr::OpAssign(p.clone(), "+".into(), b(int_rhs)),
                4 => Expr::Assign(p.clone(), b(Expr::Null)),
                _ => {
                    // through an inner closure: the check belongs to the variable, not to the scope
                    let g = self.fresh();
                    let rhs = if self.rng.chance(1, 2) { str_rhs } else { int_rhs };
                    Expr::Seq(
                        vec![
                            Expr::Declare(Pat::Ident(g.clone()), b(Expr::Lambda(vec![], b(Expr::Assign(p.clone(), b(rhs)))))),
                            Expr::Call(b(Expr::Ident(g)), vec![]),
                        ],
                        true,
                    )
                }
            };
            xs.push(Expr::Try(b(st), Pat::Underscore, b(print(&tag))));
        }
        xs.push(Expr::List(vec![id(&p)]));
        let lam = Expr::Lambda(vec![Param { name: p, dflt: None, splat: false, ann: Some(ann) }], b(Expr::Seq(xs, false)));
        let arg = if want == Ty::Int { self.gen_int(d) } else { self.gen_str(d) };
        let call = Expr::Try(b(Expr::Call(b(id(&f)), vec![arg])), Pat::Underscore, b(Expr::Int(-4)));
        Expr::Seq(vec![Expr::Declare(Pat::Ident(f), b(lam)), Expr::Call(b(id("print")), vec![call])], true)
    }
    fn gen_lambda_body(&mut self, d: u32) -> Expr {
        // statements that may mutate captured variables, then an int
        let n = self.rng.below(3);
        let mut xs = vec![];
        for _ in 0..n {
            xs.push(self.gen_stmt(d));
        }
        if self.rng.chance(1, 5) {
            self.feat("return");
            let c = self.gen_cond(d);
            let v = self.gen_int(d);
            xs.push(Expr::If(b(c), b(Expr::Return(Some(b(v)))), None));
        }
        xs.push(self.gen_int(d));
        Expr::Seq(xs, false)
    }
    fn gen_fun0(&mut self, d: u32) -> Expr {
        if d == 0 || self.rng.chance(1, 2) {
            if let Some(v) = self.pick_var(&Ty::Fun0) {
                return Expr::Ident(v);
            }
        }
        if d > 0 && self.rng.chance(1, 4) {
            if let Some(m) = self.pick_var(&Ty::Maker) {
                self.feat("maker-call");
                return Expr::Call(b(Expr::Ident(m)), vec![]);
            }
            if let Some(fl) = self.pick_var(&Ty::FunList) {
                self.feat("closure-list-index");
                return Expr::Index(b(Expr::Ident(fl)), b(Expr::Int(*self.rng.pick(&[0, 1, -1]))));
            }
        }
        self.feat("lambda0");
        let saved = (self.loop_depth, self.in_lambda);
        self.loop_depth = 0;
        self.in_lambda += 1;
        let body = self.in_frame(|g| g.conditional(|g| g.gen_lambda_body(d.saturating_sub(1))));
        self.loop_depth = saved.0;
        self.in_lambda = saved.1;
        Expr::Lambda(vec![], b(body))
    }
    fn gen_fun1(&mut self, d: u32) -> Expr {
        if d == 0 || self.rng.chance(1, 2) {
            if let Some(v) = self.pick_var(&Ty::Fun1) {
                return Expr::Ident(v);
            }
        }
        self.feat("lambda1");
        let p = self.fresh();
        let saved = (self.loop_depth, self.in_lambda);
        self.loop_depth = 0;
        self.in_lambda += 1;
        let body = self.in_frame(|g| {
            g.declare(&p, Ty::Int);
            g.conditional(|g| g.gen_lambda_body(d.saturating_sub(1)))
        });
        self.loop_depth = saved.0;
        self.in_lambda = saved.1;
        let ann = self.gen_ann_safe(&Ty::Int);
        Expr::Lambda(vec![Param { name: p, dflt: None, splat: false, ann }], b(body))
    }

    // ---------------------------------------------------------------- statements
    pub fn gen_stmt(&mut self, d: u32) -> Expr {
        self.budget -= 1;
        let choice = if self.budget <= 0 { self.rng.below(4) } else { self.rng.below(35) };
        match choice {
            0 | 1 => {
                let x = self.fresh();
                let (ty, e) = match self.rng.below(6) {
                    0 | 1 | 2 => (Ty::Int, self.gen_int(d)),
                    3 => (Ty::Str, self.gen_str(d)),
                    _ => (Ty::List, self.gen_list(d)),
                };
                self.declare(&x, ty);
                Expr::Declare(Pat::Ident(x), b(e))
            }
            2 => {
                // assignment to an existing variable of the same type
                match self.rng.below(3) {
                    0 => {
                        if let Some(v) = self.pick_assignable(&Ty::Str) {
                            return Expr::Assign(v, b(self.gen_str(d)));
                        }
                    }
                    1 => {
                        if let Some(v) = self.pick_assignable(&Ty::List) {
                            return Expr::Assign(v, b(self.gen_list(d)));
                        }
                    }
                    _ => {}
                }
                match self.pick_assignable(&Ty::Int) {
                    Some(v) => Expr::Assign(v, b(self.gen_int(d))),
                    None => Expr::Call(b(Expr::Ident("print".into())), vec![self.gen_int(d)]),
                }
            }
            3 => {
                self.feat("opassign");
                match self.rng.below(4) {
                    0 => {
                        if let Some(v) = self.pick_assignable(&Ty::Str) {
                            return Expr::OpAssign(v, "$".into(), b(self.bounded(|g| g.gen_str(d))));
                        }
                    }
                    1 => {
                        if let Some(v) = self.pick_assignable(&Ty::List) {
                            return if self.rng.chance(1, 2) {
                                Expr::OpAssign(v, "++".into(), b(self.bounded(|g| g.gen_list(d))))
                            } else {
                                Expr::OpAssign(v, "append".into(), b(self.gen_int(d)))
                            };
                        }
                    }
                    _ => {}
                }
                match self.pick_assignable(&Ty::Int) {
                    Some(v) => {
                        let o = *self.rng.pick(&["+", "-", "*"]);
                        let rhs = if o == "*" { self.bounded(|g| g.gen_int(d)) } else { self.gen_int(d) };
                        Expr::OpAssign(v, o.into(), b(rhs))
                    }
                    None => Expr::Call(b(Expr::Ident("print".into())), vec![self.gen_str(d)]),
                }
            }
            4 | 5 | 6 => {
                self.feat("print");
                let n = 1 + self.rng.below(2);
                let args = (0..n)
                    .map(|_| if self.rng.chance(2, 3) { self.gen_int(d) } else { self.gen_str(d) })
                    .collect();
                Expr::Call(b(Expr::Ident("print".into())), args)
            }
            7 | 8 if d > 0 => {
                self.feat("if");
                let c = self.gen_cond(d - 1);
                let t = self.conditional(|g| g.gen_block(d - 1));
                let e = if self.rng.chance(1, 2) { Some(b(self.conditional(|g| g.gen_block(d - 1)))) } else { None };
                Expr::If(b(c), b(t), e)
            }
            9 | 10 if d > 0 => {
                self.feat("while");
                // c := 0; while (c < K) (c = c + 1; body)
                let c = self.fresh();
                let k = 1 + self.rng.below(4) as i64;
                self.declare(&c, Ty::Int);
                self.readonly.insert(c.clone());
                let body = self.in_frame(|g| {
                    g.loop_depth += 1;
                    let inner = g.gen_block(d - 1);
                    g.loop_depth -= 1;
                    inner
                });
                Expr::Seq(
                    vec![
                        Expr::Declare(Pat::Ident(c.clone()), b(Expr::Int(0))),
                        Expr::While(
                            b(Expr::Op("<".into(), b(Expr::Ident(c.clone())), b(Expr::Int(k)))),
                            b(Expr::Seq(
                                vec![
                                    Expr::Assign(c.clone(), b(Expr::Op("+".into(), b(Expr::Ident(c.clone())), b(Expr::Int(1))))),
                                    body,
                                ],
                                false,
                            )),
                        ),
                    ],
                    true,
                )
            }
            30 if d > 0 => {
                // c := 0; while ((m := c; c = c + 1; m < K)) body-using-m
                // the condition and the body of an iteration share one fresh scope: a name declared by
                // the condition is a loop local (and may shadow an outer variable of the same name)
                self.feat("while-cond-declares");
                let c = self.fresh();
                let k = 1 + self.rng.below(3) as i64;
                self.declare(&c, Ty::Int);
                self.readonly.insert(c.clone());
                let m = match self.pick_var(&Ty::Int) {
                    Some(v) if v != c && !self.readonly.contains(&v) && self.rng.chance(1, 2) => {
                        self.feat("while-cond-declares-shadowing");
                        v
                    }
                    _ => self.fresh(),
                };
                let body = self.in_frame(|g| {
                    g.declare(&m, Ty::Int);
                    g.loop_depth += 1;
                    let mut xs = vec![Expr::Call(b(Expr::Ident("print".into())), vec![Expr::Ident(m.clone())])];
                    xs.push(g.gen_block(d - 1));
                    g.loop_depth -= 1;
                    Expr::Seq(xs, false)
                });
                let cond = Expr::Seq(
                    vec![
                        Expr::Declare(Pat::Ident(m.clone()), b(Expr::Ident(c.clone()))),
                        Expr::Assign(c.clone(), b(Expr::Op("+".into(), b(Expr::Ident(c.clone())), b(Expr::Int(1))))),
                        Expr::Op("<".into(), b(Expr::Ident(m.clone())), b(Expr::Int(k))),
                    ],
                    false,
                );
                Expr::Seq(vec![Expr::Declare(Pat::Ident(c.clone()), b(Expr::Int(0))), Expr::While(b(cond), b(body))], true)
            }
            34 => {
                // the VALUE of a short-circuit form is the deciding operand itself (null / "" / [] / 0 on the
                // left of `and`, a truthy left of `or`, a non-null left of `coalesce`)
                self.feat("short-circuit-values");
                let pr = |e: Expr| Expr::Call(b(Expr::Ident("print".into())), vec![e]);
                let k = self.small_int();
                let lefts = vec![Expr::Null, Expr::Str(String::new()), Expr::List(vec![]), Expr::Int(0), Expr::Int(k), Expr::Str("s".into()), Expr::List(vec![Expr::Int(0)])];
                let mut xs = vec![];
                for l in lefts {
                    let form = match self.rng.below(3) {
                        0 => Expr::And(b(l), b(Expr::Int(5))),
                        1 => Expr::Or(b(l), b(Expr::Int(5))),
                        _ => Expr::Coalesce(b(l), b(Expr::Int(5))),
                    };
                    xs.push(pr(Expr::List(vec![form])));
                }
                Expr::Seq(xs, true)
            }
            33 if d > 0 && !self.no_self_shadow => {
                // a scope that is EMPTY when a nested scope creates closures, and only later receives the
                // declaration those closures use: the closures must still see it (scopes are linked to their
                // real parent, however empty it is at the time).  (Not inside frozen code: a reference to a
                // local declared textually later is the known finding F20 there.)
                self.feat("late-declared-captured");
                let (mk, fs, k, i, f, acc) = (self.fresh(), self.fresh(), self.fresh(), self.fresh(), self.fresh(), self.fresh());
                let kv = self.small_int();
                let closures = Expr::For(
                    vec![ForIt::Iter(IterKind::Normal, Pat::Ident(i.clone()), Expr::List(vec![Expr::Int(1), Expr::Int(2), Expr::Int(3)]))],
                    ForBody::Yield(b(Expr::Lambda(vec![], b(Expr::Op("*".into(), b(Expr::Ident(i.clone())), b(Expr::Ident(k.clone())))))), None),
                );
                let use_them = Expr::For(
                    vec![ForIt::Iter(IterKind::Normal, Pat::Ident(f.clone()), Expr::Ident(fs.clone()))],
                    ForBody::Exec(b(Expr::OpAssign(acc.clone(), "+".into(), b(Expr::Call(b(Expr::Ident(f.clone())), vec![]))))),
                );
                let inner = vec![
                    Expr::Declare(Pat::Ident(fs.clone()), b(closures)),
                    Expr::Declare(Pat::Ident(k.clone()), b(Expr::Int(kv))),
                    Expr::Declare(Pat::Ident(acc.clone()), b(Expr::Int(0))),
                    use_them,
                    Expr::Ident(acc.clone()),
                ];
                let pr = |e: Expr| Expr::Call(b(Expr::Ident("print".into())), vec![e]);
                if self.rng.chance(1, 2) {
                    // the empty scope is the body scope of a zero-parameter lambda call
                    self.declare(&mk, Ty::Fun0);
                    Expr::Seq(
                        vec![
                            Expr::Declare(Pat::Ident(mk.clone()), b(Expr::Lambda(vec![], b(Expr::Seq(inner, false))))),
                            pr(Expr::Call(b(Expr::Ident(mk)), vec![])),
                        ],
                        true,
                    )
                } else {
                    // the empty scope is a `while` iteration
                    let c = self.fresh();
                    self.declare(&c, Ty::Int);
                    self.readonly.insert(c.clone());
                    let mut body = inner;
                    let last = body.pop().unwrap();
                    body.push(pr(last));
                    body.push(Expr::Assign(c.clone(), b(Expr::Op("+".into(), b(Expr::Ident(c.clone())), b(Expr::Int(1))))));
                    Expr::Seq(
                        vec![
                            Expr::Declare(Pat::Ident(c.clone()), b(Expr::Int(0))),
                            Expr::While(b(Expr::Op("<".into(), b(Expr::Ident(c)), b(Expr::Int(2)))), b(Expr::Seq(body, true))),
                        ],
                        true,
                    )
                }
            }
            32 if d > 0 => {
                // order of evaluation of a call: the callee expression first, then the arguments left to
                // right.  Visible when an argument reassigns the variable the callee reads, when callee and
                // argument both print, and when the callee raises before any argument runs
                self.feat("call-order");
                let (h1, h2, hit) = (self.fresh(), self.fresh(), self.fresh());
                let (p1, p2) = (self.fresh(), self.fresh());
                let k = self.small_int();
                let lam1 = Expr::Lambda(vec![Param { name: p1.clone(), dflt: None, splat: false, ann: None }], b(Expr::Op("+".into(), b(Expr::Ident(p1)), b(Expr::Int(1)))));
                let lam2 = Expr::Lambda(vec![Param { name: p2.clone(), dflt: None, splat: false, ann: None }], b(Expr::Op("*".into(), b(Expr::Ident(p2)), b(Expr::Int(100)))));
                self.declare(&h1, Ty::Fun1);
                self.declare(&h2, Ty::Fun1);
                self.declare(&hit, Ty::Int);
                self.readonly.insert(h1.clone());
                self.readonly.insert(h2.clone());
                let pr = |e: Expr| Expr::Call(b(Expr::Ident("print".into())), vec![e]);
                // h1((h1 = h2; k)) calls the OLD h1
                let arg_reassigns = Expr::Call(b(Expr::Ident(h1.clone())), vec![Expr::Seq(vec![Expr::Assign(h1.clone(), b(Expr::Ident(h2.clone()))), Expr::Int(k)], false)]);
                // ((print("c"); h2))((print("a"); k)): callee prints first
                let both_print = Expr::Call(
                    b(Expr::Seq(vec![pr(Expr::Str("c".into())), Expr::Ident(h2.clone())], false)),
                    vec![Expr::Seq(vec![pr(Expr::Str("a".into())), Expr::Int(k)], false)],
                );
                // an undeclared callee raises before the argument assigns
                let callee_raises = Expr::Try(
                    b(Expr::Call(b(Expr::Ident("undeclared_fn".into())), vec![Expr::Seq(vec![Expr::Assign(hit.clone(), b(Expr::Int(1))), Expr::Int(2)], false)])),
                    Pat::Underscore,
                    b(Expr::Null),
                );
                Expr::Seq(
                    vec![
                        Expr::Declare(Pat::Ident(h1.clone()), b(lam1)),
                        Expr::Declare(Pat::Ident(h2.clone()), b(lam2)),
                        Expr::Declare(Pat::Ident(hit.clone()), b(Expr::Int(0))),
                        pr(arg_reassigns),
                        pr(Expr::Call(b(Expr::Ident(h1.clone())), vec![Expr::Int(k)])),
                        pr(both_print),
                        // (an unbound name makes `freeze` itself fail: not inside frozen code)
                        if self.no_self_shadow { Expr::Null } else { callee_raises },
                        pr(Expr::Ident(hit.clone())),
                    ],
                    true,
                )
            }
            31 if d > 0 => {
                // a local recursive function: f := \n -> if (n <= 0 or n > 6) base else n + f(n - 1)
                // (the declaration binds f before its right-hand side is resolved, so the inner f is the
                // function itself, also when an outer f exists)
                self.feat("recursive-local-function");
                let cur: Vec<String> = self.frames.last().unwrap().iter().map(|v| v.name.clone()).collect();
                let f = match self.pick_var(&Ty::Fun1) {
                    Some(v) if !cur.contains(&v) && !self.readonly.contains(&v) && self.rng.chance(1, 2) => {
                        self.feat("recursive-local-function-shadowing");
                        v
                    }
                    _ => self.fresh(),
                };
                let n = self.fresh();
                let base = match self.pick_var(&Ty::Int) {
                    Some(v) if self.rng.chance(1, 2) => Expr::Ident(v),
                    _ => Expr::Int(self.small_int()),
                };
                let stop = Expr::Or(
                    b(Expr::Op("<=".into(), b(Expr::Ident(n.clone())), b(Expr::Int(0)))),
                    b(Expr::Op(">".into(), b(Expr::Ident(n.clone())), b(Expr::Int(6)))),
                );
                let rec = Expr::Op(
                    "+".into(),
                    b(Expr::Ident(n.clone())),
                    b(Expr::Call(b(Expr::Ident(f.clone())), vec![Expr::Op("-".into(), b(Expr::Ident(n.clone())), b(Expr::Int(1)))])),
                );
                let lam = Expr::Lambda(vec![Param { name: n, dflt: None, splat: false, ann: None }], b(Expr::If(b(stop), b(base), Some(b(rec)))));
                self.declare(&f, Ty::Fun1);
                let arg = Expr::Int(1 + self.rng.below(5) as i64);
                Expr::Seq(
                    vec![
                        Expr::Declare(Pat::Ident(f.clone()), b(lam)),
                        Expr::Call(b(Expr::Ident("print".into())), vec![Expr::Call(b(Expr::Ident(f)), vec![arg])]),
                    ],
                    true,
                )
            }
            11 | 12 | 13 if d > 0 => {
                self.feat("for");
                let (lp, names) = self.in_frame(|g| {
                    let its = g.gen_for_header(d - 1, &mut |_| {});
                    let names = g.last_header_names.clone();
                    g.loop_depth += 1;
                    let body = g.gen_block(d - 1);
                    g.loop_depth -= 1;
                    (Expr::For(its, ForBody::Exec(b(body))), names)
                });
                // names bound by the header live in the loop's own scopes: the enclosing scope may
                // declare the same name afterwards
                let reusable: Vec<String> = names
                    .into_iter()
                    .filter(|n| !self.frames.iter().any(|fr| fr.iter().any(|v| &v.name == n)))
                    .collect();
                if !reusable.is_empty() && self.rng.chance(1, 3) {
                    self.feat("redeclare-after-loop");
                    let y = self.rng.pick(&reusable).clone();
                    let e = Expr::Int(self.small_int());
                    self.declare(&y, Ty::Int);
                    Expr::Seq(vec![lp, Expr::Declare(Pat::Ident(y), b(e))], true)
                } else {
                    lp
                }
            }
            14 if self.loop_depth > 0 => {
                self.feat("break");
                let n = self.rng.below(self.loop_depth as u64) as usize;
                if n > 0 {
                    self.feat("break-multi");
                }
                let c = self.gen_cond(d.saturating_sub(1));
                Expr::If(b(c), b(Expr::Break(n, None)), None)
            }
            15 if self.loop_depth > 0 => {
                self.feat("continue");
                let n = self.rng.below(self.loop_depth as u64) as usize;
                if n > 0 {
                    self.feat("continue-multi");
                }
                let c = self.gen_cond(d.saturating_sub(1));
                Expr::If(b(c), b(Expr::Continue(n)), None)
            }
            16 if d > 0 && (self.try_depth > 0 || self.rng.chance(1, 6)) => {
                self.feat("throw");
                let c = self.gen_cond(d - 1);
                Expr::If(b(c), b(Expr::Throw(b(Expr::Int(*self.rng.pick(&[1, 2, 3]))))), None)
            }
            17 | 18 if d > 0 => {
                if self.rng.chance(1, 4) {
                    return self.gen_try_local(d - 1);
                }
                self.feat("try");
                self.try_depth += 1;
                let body = self.conditional(|g| g.gen_block(d - 1));
                self.try_depth -= 1;
                let (p, c) = self.gen_catch(d - 1);
                Expr::Try(b(body), p, b(c))
            }
            19 | 20 if d > 0 => {
                // named function capturing (and possibly mutating) outer variables
                let f = self.fresh();
                if self.rng.chance(1, 2) {
                    let e = self.gen_fun0(d);
                    self.declare(&f, Ty::Fun0);
                    Expr::Declare(Pat::Ident(f), b(e))
                } else {
                    let e = self.gen_fun1(d);
                    self.declare(&f, Ty::Fun1);
                    Expr::Declare(Pat::Ident(f), b(e))
                }
            }
            21 if d > 0 => {
                // closure that escapes its defining scope: mk := \ -> (c := k; \ -> (c = c + s; c))
                self.feat("escaping-closure");
                let (mk, c) = (self.fresh(), self.fresh());
                let (k, s) = (self.small_int(), 1 + self.rng.below(3) as i64);
                let inner = Expr::Lambda(
                    vec![],
                    b(Expr::Seq(
                        vec![
                            Expr::Assign(c.clone(), b(Expr::Op("+".into(), b(Expr::Ident(c.clone())), b(Expr::Int(s))))),
                            Expr::Ident(c.clone()),
                        ],
                        false,
                    )),
                );
                self.declare(&mk, Ty::Maker);
                Expr::Declare(
                    Pat::Ident(mk),
                    b(Expr::Lambda(vec![], b(Expr::Seq(vec![Expr::Declare(Pat::Ident(c), b(Expr::Int(k))), inner], false)))),
                )
            }
            22 if d > 0 => {
                // closures created per loop iteration
                self.feat("closure-per-iteration");
                let (fs, i) = (self.fresh(), self.fresh());
                let lst = self.gen_iteratee(d - 1);
                let body = self.in_frame(|g| {
                    g.declare(&i, Ty::Int);
                    let e = g.gen_int(d - 1);
                    Expr::Lambda(vec![], b(Expr::Op("+".into(), b(Expr::Ident(i.clone())), b(e))))
                });
                self.declare(&fs, Ty::FunList);
                Expr::Declare(
                    Pat::Ident(fs),
                    b(Expr::For(vec![ForIt::Iter(IterKind::Normal, Pat::Ident(i), lst)], ForBody::Yield(b(body), None))),
                )
            }
            23 if d > 0 => {
                // shadowing: redeclare an outer name in an inner scope (a one-iteration for loop gives a fresh scope)
                if let Some(v) = self.pick_assignable(&Ty::Int) {
                    let in_current = self.frames.last().unwrap().iter().any(|x| x.name == v);
                    if !in_current || true {
                        self.feat("shadowing");
                        let t = self.fresh();
                        let e = if self.no_self_shadow { Expr::Int(self.small_int()) } else { self.gen_int(d - 1) };
                        let body = self.in_frame(|g| {
                            g.declare(&t, Ty::Int);
                            g.in_frame(|g| {
                                let decl = Expr::Declare(Pat::Ident(v.clone()), b(e));
                                g.declare(&v, Ty::Int);
                                let mut xs = vec![decl];
                                xs.push(g.gen_stmt(d - 1));
                                xs.push(Expr::Call(b(Expr::Ident("print".into())), vec![Expr::Ident(v.clone())]));
                                Expr::Seq(xs, false)
                            })
                        });
                        // `for (t <- [0]) (v := e; ...)`: the body runs in a fresh frame, so `v :=` shadows
                        return Expr::Seq(
                            vec![
                                Expr::For(
                                    vec![ForIt::Iter(IterKind::Normal, Pat::Ident(t), Expr::List(vec![Expr::Int(0)]))],
                                    ForBody::Exec(b(body)),
                                ),
                                Expr::Call(b(Expr::Ident("print".into())), vec![Expr::Ident(v)]),
                            ],
                            true,
                        );
                    }
                }
                Expr::Call(b(Expr::Ident("print".into())), vec![self.gen_int(d)])
            }
            24 if d > 0 => {
                self.feat("decl-pair");
                let (x, y) = (self.fresh(), self.fresh());
                let e = Expr::List(vec![self.gen_int(d - 1), self.gen_int(d - 1)]);
                self.declare(&x, Ty::Int);
                self.declare(&y, Ty::Int);
                Expr::Declare(Pat::Seq(vec![Pat::Ident(x), Pat::Ident(y)]), b(e))
            }
            25 if d > 0 => {
                // lambda with defaults and/or splat, called with various arities
                self.feat("lambda-defaults");
                let f = self.fresh();
                let (p1, p2, p3) = (self.fresh(), self.fresh(), self.fresh());
                let dv = self.small_int();
                let dflt_expr = match self.pick_var(&Ty::Int) {
                    Some(v) if self.rng.chance(1, 2) => Expr::Ident(v),
                    _ => Expr::Int(dv),
                };
                let use_splat = self.allow_splat && self.rng.chance(1, 2);
                let mut params = vec![
                    Param { name: p1.clone(), dflt: None, splat: false, ann: None },
                    Param { name: p2.clone(), dflt: Some(dflt_expr.clone()), splat: false, ann: None },
                ];
                let body = if use_splat {
                    self.feat("lambda-splat");
                    match self.rng.below(3) {
                        0 => {
                            params = vec![
                                Param { name: p1.clone(), dflt: None, splat: false, ann: None },
                                Param { name: p3.clone(), dflt: None, splat: true, ann: None },
                            ];
                            Expr::Op("+".into(), b(Expr::Ident(p1.clone())), b(Expr::Call(b(Expr::Ident("len".into())), vec![Expr::Ident(p3.clone())])))
                        }
                        1 => {
                            // a default AFTER the splat: the default applies only when no argument is left for it
                            self.feat("lambda-splat-then-default");
                            params = vec![
                                Param { name: p1.clone(), dflt: None, splat: false, ann: None },
                                Param { name: p3.clone(), dflt: None, splat: true, ann: None },
                                Param { name: p2.clone(), dflt: Some(dflt_expr.clone()), splat: false, ann: None },
                            ];
                            Expr::List(vec![Expr::Ident(p1.clone()), Expr::Ident(p3.clone()), Expr::Ident(p2.clone())])
                        }
                        _ => {
                            self.feat("lambda-splat-then-default");
                            params = vec![
                                Param { name: p3.clone(), dflt: None, splat: true, ann: None },
                                Param { name: p2.clone(), dflt: Some(dflt_expr.clone()), splat: false, ann: None },
                            ];
                            Expr::List(vec![Expr::Ident(p3.clone()), Expr::Ident(p2.clone())])
                        }
                    }
                } else {
                    Expr::Op("*".into(), b(Expr::Ident(p1.clone())), b(Expr::Ident(p2.clone())))
                };
                // type annotations on any of the parameters (the splat receives a list); the call is
                // guarded, so annotations that do not fit / are not types / do not exist are included.
                // A default that prints shows where defaults run relative to the annotations.
                if self.rng.chance(1, 2) {
                    self.feat("lambda-annotated-params");
                    for prm in params.iter_mut() {
                        let want = if prm.splat { Ty::List } else { Ty::Int };
                        prm.ann = self.gen_ann_any(&want);
                        if prm.dflt.is_some() && self.rng.chance(1, 3) {
                            self.feat("default-side-effect");
                            let dd = prm.dflt.take().unwrap();
                            prm.dflt = Some(Expr::Seq(vec![Expr::Call(b(Expr::Ident("print".into())), vec![Expr::Str("D".into())]), dd], false));
                        }
                    }
                }
                let nargs = self.rng.below(4) as usize;
                let args: Vec<Expr> = (0..nargs).map(|_| self.gen_int(d - 1)).collect();
                let call = Expr::Call(b(Expr::Ident(f.clone())), args);
                let guarded = Expr::Try(b(call), Pat::Underscore, b(Expr::Int(-5)));
                Expr::Seq(
                    vec![
                        Expr::Declare(Pat::Ident(f), b(Expr::Lambda(params, b(body)))),
                        Expr::Call(b(Expr::Ident("print".into())), vec![guarded]),
                    ],
                    true,
                )
            }
            26 if d > 0 => {
                self.feat("yield-item");
                let x = self.fresh();
                let d0 = self.fresh();
                let lst = self.gen_iteratee(d - 1);
                let (kb, vb, into) = self.in_frame(|g| {
                    g.declare(&x, Ty::Int);
                    let kb = Expr::Op("%".into(), b(Expr::Ident(x.clone())), b(Expr::Int(*g.rng.pick(&[2, 3]))));
                    let mut vb = g.gen_int(d - 1);
                    if g.rng.chance(1, 2) {
                        // an impure value expression: whether it runs for a key whose fold has already
                        // closed (`into first`) is observable
                        g.feat("yield-item-impure-value");
                        vb = Expr::Seq(vec![Expr::Call(b(Expr::Ident("print".into())), vec![Expr::Ident(x.clone())]), vb], false);
                    }
                    if g.rng.chance(1, 4) {
                        // a `break <value>` raised by the VALUE expression ends the whole loop with that value,
                        // also at the second or later occurrence of a key (it is not the fold's own early exit)
                        g.feat("yield-item-break-value");
                        let at = Expr::Op("==".into(), b(Expr::Ident(x.clone())), b(Expr::Int(*g.rng.pick(&[1, 2, 3, 5, 7]))));
                        vb = Expr::If(b(at), b(Expr::Break(0, Some(b(Expr::Int(99))))), Some(b(vb)));
                    }
                    let into = match g.rng.below(5) {
                        0 => Some(b(Expr::Ident("sum".into()))),
                        1 => Some(b(Expr::Ident("len".into()))),
                        2 | 3 => Some(b(Expr::Ident("first".into()))),
                        _ => None,
                    };
                    (kb, vb, into)
                });
                // dicts are only observed through the final value of the program
                let e = Expr::For(vec![ForIt::Iter(IterKind::Normal, Pat::Ident(x), lst)], ForBody::YieldItem(b(kb), b(vb), into));
                self.declare(&d0, Ty::Dict);
                Expr::Declare(Pat::Ident(d0), b(e))
            }
            27 => {
                let f = self.gen_fun0(d);
                Expr::Call(b(f), vec![])
            }
            28 => self.gen_type_decl(),
            29 if d > 0 => self.gen_typed_param_stmt(d - 1),
            _ => {
                let x = self.fresh();
                let e = self.gen_int(d);
                self.declare(&x, Ty::Int);
                Expr::Declare(Pat::Ident(x), b(e))
            }
        }
    }
    fn gen_block(&mut self, d: u32) -> Expr {
        let n = 1 + self.rng.below(3);
        let xs = (0..n).map(|_| self.gen_stmt(d)).collect();
        Expr::Seq(xs, self.rng.chance(1, 2))
    }

    // ---------------------------------------------------------------- faults
    fn gen_fault(&mut self) -> Expr {
        self.faulty = true;
        match self.rng.below(10) {
            7 => {
                self.feat("fault-annotation-mismatch");
                let x = self.fresh();
                let ann = *self.rng.pick(&["str", "list", "nulltype", "dict", "func", "type"]);
                Expr::Call(
                    b(Expr::Lambda(vec![Param { name: x.clone(), dflt: None, splat: false, ann: Some(Expr::Ident(ann.into())) }], b(Expr::Ident(x)))),
                    vec![Expr::Int(1)],
                )
            }
            8 => {
                self.feat("fault-annotation-not-a-type");
                let x = self.fresh();
                let ann = match self.rng.below(3) {
                    0 => Expr::Int(5),
                    1 => Expr::Ident("len".into()),
                    _ => Expr::Ident("zz_no_such_type".into()),
                };
                Expr::Call(
                    b(Expr::Lambda(vec![Param { name: x.clone(), dflt: None, splat: false, ann: Some(ann) }], b(Expr::Ident(x)))),
                    vec![Expr::Int(1)],
                )
            }
            9 => {
                self.feat("fault-typed-param-assign");
                let x = self.fresh();
                let (ann, rhs) = if self.rng.chance(1, 2) { ("int", Expr::Str("s".into())) } else { ("str", Expr::Int(3)) };
                let arg = if ann == "int" { Expr::Int(1) } else { Expr::Str("a".into()) };
                let st = if self.rng.chance(1, 2) { Expr::Assign(x.clone(), b(rhs)) } else { Expr::OpAssign(x.clone(), if ann == "int" { "$".into() } else { "+".into() }, b(rhs)) };
                Expr::Call(
                    b(Expr::Lambda(
                        vec![Param { name: x.clone(), dflt: None, splat: false, ann: Some(Expr::Ident(ann.into())) }],
                        b(Expr::Seq(vec![st, Expr::Ident(x)], false)),
                    )),
                    vec![arg],
                )
            }
            0 => {
                self.feat("fault-undeclared-read");
                Expr::Call(b(Expr::Ident("print".into())), vec![Expr::Ident("undeclared_name".into())])
            }
            1 => {
                self.feat("fault-assign-undeclared");
                Expr::Assign("never_declared".into(), b(Expr::Int(1)))
            }
            2 => {
                self.feat("fault-redeclare");
                match self.frames.last().unwrap().last().cloned() {
                    Some(v) => Expr::Declare(Pat::Ident(v.name), b(Expr::Int(0))),
                    None => Expr::Seq(vec![Expr::Declare(Pat::Ident("dup".into()), b(Expr::Int(0))), Expr::Declare(Pat::Ident("dup".into()), b(Expr::Int(1)))], true),
                }
            }
            3 => {
                self.feat("fault-arity");
                let f = self.gen_fun1(1);
                Expr::Call(b(f), vec![Expr::Int(1), Expr::Int(2)])
            }
            4 => {
                self.feat("fault-type");
                Expr::Op("+".into(), b(Expr::Int(1)), b(Expr::Str("a".into())))
            }
            5 => {
                self.feat("fault-unpack");
                let (x, y) = (self.fresh(), self.fresh());
                Expr::Declare(Pat::Seq(vec![Pat::Ident(x), Pat::Ident(y)]), b(Expr::List(vec![Expr::Int(1)])))
            }
            _ => {
                self.feat("fault-break-escape");
                Expr::Break(self.loop_depth + 1, None)
            }
        }
    }

    /// a whole program: statements, then a list dumping every top-level variable
    pub fn gen_program(&mut self, nstmts: usize, fault_at: Option<usize>, catch_fault: bool) -> Expr {
        let mut xs = vec![];
        for i in 0..nstmts {
            if Some(i) == fault_at {
                let f = self.gen_fault();
                if catch_fault {
                    self.feat("fault-caught");
                    xs.push(Expr::Try(b(f), Pat::Underscore, b(Expr::Call(b(Expr::Ident("print".into())), vec![Expr::Str("caught".into())]))));
                } else {
                    xs.push(f);
                }
            }
            self.budget = 40;
            xs.push(self.gen_stmt(self.max_depth));
        }
        let mut dump = vec![];
        for ty in [Ty::Int, Ty::Str, Ty::List, Ty::Dict] {
            for v in self.frames[0].iter().filter(|v| v.ty == ty) {
                dump.push(Expr::Ident(v.name.clone()));
            }
        }
        for v in self.frames[0].iter().filter(|v| v.ty == Ty::Fun0) {
            dump.push(Expr::Try(b(Expr::Call(b(Expr::Ident(v.name.clone())), vec![])), Pat::Underscore, b(Expr::Int(-3))));
        }
        xs.push(Expr::List(dump));
        Expr::Seq(xs, false)
    }

    // ---------------------------------------------------------------- C17: freeze cases
    /// prelude of outer variables (ints, strings, lists, one pure function), all read-only afterwards
    pub fn gen_freeze_case(&mut self, kind: u64) -> FreezeCase {
        self.allow_eval = false;
        self.no_self_shadow = true;
        self.no_unbound_ann = true;
        let mut prelude = vec![];
        let mut outer: Vec<(String, Ty)> = vec![];
        let n = 2 + self.rng.below(3);
        for i in 0..n {
            let x = format!("o{}", i + 1);
            let (ty, e) = match self.rng.below(4) {
                0 | 1 => (Ty::Int, Expr::Int(self.small_int())),
                2 => (Ty::Str, Expr::Str(self.rng.pick(STRS).to_string())),
                _ => (Ty::List, Expr::List(vec![Expr::Int(self.small_int()), Expr::Int(self.small_int())])),
            };
            self.declare(&x, ty.clone());
            self.readonly.insert(x.clone());
            outer.push((x.clone(), ty));
            prelude.push(Expr::Declare(Pat::Ident(x), b(e)));
        }
        // outer variables holding types, for parameter annotations inside the lambda under test; they
        // are reassigned (to a type the argument does NOT have) between the two frozen calls
        let mut outer_types: Vec<(String, &'static str)> = vec![];
        let ntypes = self.rng.below(3);
        for i in 0..ntypes {
            let t = format!("t{}", i + 1);
            let name: &'static str = *self.rng.pick(&["int", "int", "number", "anything", "list", "str"]);
            self.declare(&t, Ty::Type);
            self.readonly.insert(t.clone());
            self.type_held.insert(t.clone(), name);
            outer_types.push((t.clone(), name));
            prelude.push(Expr::Declare(Pat::Ident(t), b(Expr::Ident(name.into()))));
        }
        // a pure outer function reading an outer int
        let k = self.small_int();
        let of = "of1".to_string();
        prelude.push(Expr::Declare(
            Pat::Ident(of.clone()),
            b(Expr::Lambda(
                vec![Param { name: "q".into(), dflt: None, splat: false, ann: None }],
                b(Expr::Op("+".into(), b(Expr::Op("*".into(), b(Expr::Ident("q".into())), b(Expr::Int(k)))), b(Expr::Int(1)))),
            )),
        ));
        self.declare(&of, Ty::Fun1);
        self.readonly.insert(of.clone());
        // the lambda under test
        let p = self.fresh();
        let d = self.max_depth;
        self.budget = 50;
        self.in_lambda += 1;
        let mut body = self.in_frame(|g| {
            g.declare(&p, Ty::Int);
            g.conditional(|g| {
                let n = 1 + g.rng.below(3);
                let mut xs = vec![];
                for _ in 0..n {
                    xs.push(g.gen_stmt(d));
                }
                // make sure outer variables are actually mentioned
                let mut uses = vec![Expr::Ident(p.clone())];
                for (x, ty) in outer.iter() {
                    match ty {
                        Ty::Int => uses.push(Expr::Ident(x.clone())),
                        Ty::Str => uses.push(Expr::Call(b(Expr::Ident("len".into())), vec![Expr::Ident(x.clone())])),
                        _ => uses.push(Expr::Call(b(Expr::Ident("len".into())), vec![Expr::Ident(x.clone())])),
                    }
                }
                uses.push(Expr::Call(b(Expr::Ident("of1".into())), vec![Expr::Ident(p.clone())]));
                uses.push(g.gen_int(d));
                xs.push(Expr::List(uses));
                Expr::Seq(xs, false)
            })
        });
        self.in_lambda -= 1;
        let mut expect_fail = false;
        match kind {
            1 => {
                self.feat("fail-unbound-free");
                expect_fail = true;
                body = Expr::Seq(vec![Expr::If(b(Expr::Int(0)), b(Expr::Call(b(Expr::Ident("print".into())), vec![Expr::Ident("zz_unbound".into())])), None), body], false);
            }
            2 => {
                self.feat("fail-assign-outer");
                expect_fail = true;
                let (x, _) = outer[0].clone();
                body = Expr::Seq(vec![Expr::If(b(Expr::Int(0)), b(Expr::Assign(x, b(Expr::Int(5)))), None), body], false);
            }
            3 => {
                self.feat("fail-opassign-outer");
                expect_fail = true;
                if let Some((x, _)) = outer.iter().find(|(_, t)| *t == Ty::Int).cloned() {
                    body = Expr::Seq(vec![Expr::If(b(Expr::Int(0)), b(Expr::OpAssign(x, "+".into(), b(Expr::Int(5)))), None), body], false);
                } else {
                    body = Expr::Seq(vec![Expr::If(b(Expr::Int(0)), b(Expr::Assign("zz_undeclared".into(), b(Expr::Int(5)))), None), body], false);
                }
            }
            _ => {}
        }
        // the parameter of the lambda under test: often annotated, preferably through an outer type
        // variable (a free variable of the lambda that occurs ONLY in the parameter list)
        let mut p_ann: Option<Expr> = None;
        match kind {
            4 => {
                self.feat("fail-unbound-annotation");
                expect_fail = true;
                p_ann = Some(Expr::Ident("zz_unbound_type".into()));
            }
            5 => {
                // …in a nested lambda that is never even created
                self.feat("fail-unbound-annotation-nested");
                expect_fail = true;
                let w = self.fresh();
                let dead = Expr::Lambda(
                    vec![Param { name: w.clone(), dflt: None, splat: false, ann: Some(Expr::Ident("zz_unbound_type".into())) }],
                    b(Expr::Ident(w)),
                );
                body = Expr::Seq(vec![Expr::If(b(Expr::Int(0)), b(dead), None), body], false);
            }
            _ => {}
        }
        if p_ann.is_none() && self.rng.chance(3, 5) {
            self.feat("annotated-parameter-under-test");
            p_ann = Some(if self.rng.chance(1, 12) { self.gen_ann_bad(&Ty::Int) } else { self.gen_ann_ok(&Ty::Int) });
        }
        let lambda = Expr::Lambda(vec![Param { name: p, dflt: None, splat: false, ann: p_ann }], b(body));
        let arg = Expr::Int(self.small_int());
        // reassign every outer variable (and the outer function) between the two frozen calls
        let mut reassign = vec![];
        for (x, ty) in outer.iter() {
            reassign.push(match ty {
                Ty::Int => Expr::Assign(x.clone(), b(Expr::Op("+".into(), b(Expr::Ident(x.clone())), b(Expr::Int(100))))),
                Ty::Str => Expr::Assign(x.clone(), b(Expr::Op("$".into(), b(Expr::Ident(x.clone())), b(Expr::Str("zz".into()))))),
                _ => Expr::Assign(x.clone(), b(Expr::Op("++".into(), b(Expr::Ident(x.clone())), b(Expr::List(vec![Expr::Int(9), Expr::Int(9)]))))),
            });
        }
        for (t, held) in outer_types.iter() {
            // to a type an int argument does not satisfy (or, for those, to one it does)
            let to = if matches!(*held, "int" | "number" | "anything") { *self.rng.pick(&["str", "list", "nulltype"]) } else { "int" };
            reassign.push(Expr::Assign(t.clone(), b(Expr::Ident(to.into()))));
        }
        reassign.push(Expr::Assign(
            "of1".into(),
            b(Expr::Lambda(vec![Param { name: "q".into(), dflt: None, splat: false, ann: None }], b(Expr::Int(-1000)))),
        ));
        FreezeCase { prelude, lambda, arg, reassign, expect_fail }
    }
}

pub struct FreezeCase {
    pub prelude: Vec<Expr>,
    pub lambda: Expr,
    pub arg: Expr,
    pub reassign: Vec<Expr>,
    pub expect_fail: bool,
}
impl FreezeCase {
    /// prelude; hf := 1; try (h := freeze L) catch _ -> (hf = 0); g := L;
    /// print("#1"); r1 := try h(a) catch _ -> "E"; print("#2"); u1 := try g(a) catch _ -> "E";
    /// reassign…; print("#3"); r2 := try h(a) catch _ -> "E"; [hf, r1, u1, r2]
    pub fn program(&self) -> Expr {
        let id = |s: &str| Expr::Ident(s.to_string());
        let print = |s: &str| Expr::Call(b(id("print")), vec![Expr::Str(s.to_string())]);
        let guarded = |f: &str, arg: &Expr| {
            Expr::Try(b(Expr::Call(b(id(f)), vec![arg.clone()])), Pat::Underscore, b(Expr::Str("E".into())))
        };
        let mut xs = self.prelude.clone();
        xs.push(Expr::Declare(Pat::Ident("hf".into()), b(Expr::Int(1))));
        xs.push(Expr::Try(
            b(Expr::Declare(Pat::Ident("h".into()), b(Expr::Freeze(b(self.lambda.clone()))))),
            Pat::Underscore,
            b(Expr::Assign("hf".into(), b(Expr::Int(0)))),
        ));
        xs.push(Expr::Declare(Pat::Ident("g".into()), b(self.lambda.clone())));
        xs.push(print("#1"));
        xs.push(Expr::Declare(Pat::Ident("r1".into()), b(guarded("h", &self.arg))));
        xs.push(print("#2"));
        xs.push(Expr::Declare(Pat::Ident("u1".into()), b(guarded("g", &self.arg))));
        xs.extend(self.reassign.clone());
        xs.push(print("#3"));
        xs.push(Expr::Declare(Pat::Ident("r2".into()), b(guarded("h", &self.arg))));
        xs.push(Expr::List(vec![id("hf"), id("r1"), id("u1"), id("r2")]));
        Expr::Seq(xs, false)
    }
}
