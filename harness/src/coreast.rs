//! Core-language AST shared by the C05 / C17 harness binaries: rendering to Noulith source and to the
//! S-expression form the Lean drivers read (NoulithModel/Driver/CoreSexp.lean).
use crate::hex;

#[derive(Clone, Debug)]
pub enum Pat {
    Ident(String),
    Underscore,
    Seq(Vec<Pat>),
    Lit(i64),
}
#[derive(Clone, Debug, PartialEq)]
pub enum IterKind {
    Normal,
    Item,
    Declare,
}
#[derive(Clone, Debug)]
pub struct Param {
    pub name: String,
    pub dflt: Option<Expr>,
    pub splat: bool,
    /// type annotation `name: ann` (any expression; rendered as an identifier, `null`, or parenthesised)
    pub ann: Option<Expr>,
}
impl Param {
    pub fn plain(name: &str) -> Param {
        Param { name: name.to_string(), dflt: None, splat: false, ann: None }
    }
}
#[derive(Clone, Debug)]
pub enum ForIt {
    Iter(IterKind, Pat, Expr),
    Guard(Expr),
}
#[derive(Clone, Debug)]
pub enum ForBody {
    Exec(Box<Expr>),
    Yield(Box<Expr>, Option<Box<Expr>>),
    YieldItem(Box<Expr>, Box<Expr>, Option<Box<Expr>>),
}
#[derive(Clone, Debug)]
pub enum Expr {
    Null,
    Int(i64),
    Str(String),
    Ident(String),
    List(Vec<Expr>),
    Op(String, Box<Expr>, Box<Expr>),
    Index(Box<Expr>, Box<Expr>),
    Call(Box<Expr>, Vec<Expr>),
    And(Box<Expr>, Box<Expr>),
    Or(Box<Expr>, Box<Expr>),
    Coalesce(Box<Expr>, Box<Expr>),
    Seq(Vec<Expr>, bool),
    If(Box<Expr>, Box<Expr>, Option<Box<Expr>>),
    While(Box<Expr>, Box<Expr>),
    For(Vec<ForIt>, ForBody),
    Declare(Pat, Box<Expr>),
    Assign(String, Box<Expr>),
    OpAssign(String, String, Box<Expr>),
    Lambda(Vec<Param>, Box<Expr>),
    Break(usize, Option<Box<Expr>>),
    Continue(usize),
    Return(Option<Box<Expr>>),
    Throw(Box<Expr>),
    Try(Box<Expr>, Pat, Box<Expr>),
    EvalSrc(Box<Expr>),
    Freeze(Box<Expr>),
    Switch(Box<Expr>, Vec<(Pat, Expr)>),
}

pub fn b(e: Expr) -> Box<Expr> {
    Box::new(e)
}

impl Pat {
    pub fn src(&self) -> String {
        match self {
            Pat::Ident(x) => x.clone(),
            Pat::Underscore => "_".into(),
            Pat::Seq(ps) => ps.iter().map(|p| p.src()).collect::<Vec<_>>().join(", "),
            Pat::Lit(n) => {
                if *n < 0 {
                    format!("(-{})", -n)
                } else {
                    format!("{}", n)
                }
            }
        }
    }
    pub fn sexp(&self) -> String {
        match self {
            Pat::Ident(x) => format!("(pid {})", x),
            Pat::Underscore => "_".into(),
            Pat::Seq(ps) => format!("(pseq {})", ps.iter().map(|p| p.sexp()).collect::<Vec<_>>().join(" ")),
            Pat::Lit(n) => format!("(plit {})", n),
        }
    }
}

fn is_symbolic(op: &str) -> bool {
    !op.chars().next().map_or(false, |c| c.is_alphabetic())
}

impl Expr {
    /// Noulith source; every compound sub-expression is parenthesised so that the text denotes
    /// exactly this tree
    pub fn src(&self) -> String {
        match self {
            Expr::Null => "null".into(),
            Expr::Int(n) => {
                if *n < 0 {
                    format!("(0 - {})", -(*n as i128))
                } else {
                    format!("{}", n)
                }
            }
            Expr::Str(s) => format!("\"{}\"", s),
            Expr::Ident(x) => x.clone(),
            Expr::List(xs) => format!("[{}]", xs.iter().map(|x| x.src()).collect::<Vec<_>>().join(", ")),
            Expr::Op(o, a, bb) => format!("({} {} {})", a.src(), o, bb.src()),
            Expr::Index(a, i) => format!("({}[{}])", a.src(), i.src()),
            Expr::Call(f, args) => format!(
                "({}({}))",
                f.src(),
                args.iter().map(|x| x.src()).collect::<Vec<_>>().join(", ")
            ),
            Expr::And(a, bb) => format!("({} and {})", a.src(), bb.src()),
            Expr::Or(a, bb) => format!("({} or {})", a.src(), bb.src()),
            Expr::Coalesce(a, bb) => format!("({} coalesce {})", a.src(), bb.src()),
            Expr::Seq(xs, semi) => format!(
                "({}{})",
                xs.iter().map(|x| x.src()).collect::<Vec<_>>().join("; "),
                if *semi { ";" } else { "" }
            ),
            Expr::If(c, t, e) => match e {
                Some(e) => format!("(if ({}) {} else {})", c.src(), t.src(), e.src()),
                None => format!("(if ({}) {})", c.src(), t.src()),
            },
            Expr::While(c, bb) => format!("(while ({}) {})", c.src(), bb.src()),
            Expr::For(its, body) => {
                let its_s = its
                    .iter()
                    .map(|it| match it {
                        ForIt::Iter(IterKind::Normal, p, e) => format!("{} <- {}", p.src(), e.src()),
                        ForIt::Iter(IterKind::Item, p, e) => format!("{} <<- {}", p.src(), e.src()),
                        ForIt::Iter(IterKind::Declare, p, e) => format!("{} := {}", p.src(), e.src()),
                        ForIt::Guard(e) => format!("if ({})", e.src()),
                    })
                    .collect::<Vec<_>>()
                    .join("; ");
                let body_s = match body {
                    ForBody::Exec(e) => e.src(),
                    ForBody::Yield(e, into) => match into {
                        Some(i) => format!("yield {} into {}", e.src(), i.src()),
                        None => format!("yield {}", e.src()),
                    },
                    ForBody::YieldItem(k, v, into) => match into {
                        Some(i) => format!("yield {}: {} into {}", k.src(), v.src(), i.src()),
                        None => format!("yield {}: {}", k.src(), v.src()),
                    },
                };
                format!("(for ({}) {})", its_s, body_s)
            }
            Expr::Declare(p, e) => format!("({} := {})", p.src(), e.src()),
            Expr::Assign(x, e) => format!("({} = {})", x, e.src()),
            Expr::OpAssign(x, o, e) => {
                let _ = is_symbolic(o);
                format!("({} {}= {})", x, o, e.src())
            }
            Expr::Lambda(ps, body) => {
                let ps_s = ps
                    .iter()
                    .map(|p| {
                        let mut s = String::new();
                        if p.splat {
                            s.push_str("...");
                        }
                        s.push_str(&p.name);
                        if let Some(a) = &p.ann {
                            // the parser takes ONE operand here: identifiers and `null` as they are,
                            // everything else parenthesised (compound forms already are)
                            let t = a.src();
                            if matches!(a, Expr::Ident(_) | Expr::Null) || t.starts_with('(') {
                                s.push_str(&format!(": {}", t));
                            } else {
                                s.push_str(&format!(": ({})", t));
                            }
                        }
                        if let Some(d) = &p.dflt {
                            s.push_str(&format!(" = {}", d.src()));
                        }
                        s
                    })
                    .collect::<Vec<_>>()
                    .join(", ");
                format!("(\\{} -> {})", ps_s, body.src())
            }
            Expr::Break(n, e) => {
                let mut s = "break".to_string();
                for _ in 0..*n {
                    s.push_str(" break");
                }
                match e {
                    Some(e) => format!("({} {})", s, e.src()),
                    None => format!("({})", s),
                }
            }
            Expr::Continue(n) => {
                let mut s = String::new();
                for _ in 0..*n {
                    s.push_str("break ");
                }
                format!("({}continue)", s)
            }
            Expr::Return(e) => match e {
                Some(e) => format!("(return {})", e.src()),
                None => "(return)".into(),
            },
            Expr::Throw(e) => format!("(throw {})", e.src()),
            Expr::Try(bb, p, c) => format!("(try {} catch {} -> {})", bb.src(), p.src(), c.src()),
            Expr::EvalSrc(e) => {
                let inner = e.src();
                let esc = inner.replace('\\', "\\\\").replace('"', "\\\"");
                format!("(eval(\"{}\"))", esc)
            }
            Expr::Freeze(e) => format!("(freeze {})", e.src()),
            Expr::Switch(sc, arms) => format!(
                "(switch ({}) {})",
                sc.src(),
                arms.iter().map(|(p, b)| format!("case {} -> {}", p.src(), b.src())).collect::<Vec<_>>().join(" ")
            ),
        }
    }

    pub fn sexp(&self) -> String {
        let many = |xs: &Vec<Expr>| xs.iter().map(|x| x.sexp()).collect::<Vec<_>>().join(" ");
        match self {
            Expr::Null => "null".into(),
            Expr::Int(n) => format!("(int {})", n),
            Expr::Str(s) => {
                if s.is_empty() {
                    "(str)".into()
                } else {
                    format!("(str {})", hex(s.as_bytes()))
                }
            }
            Expr::Ident(x) => format!("(id {})", x),
            Expr::List(xs) => format!("(list {})", many(xs)),
            Expr::Op(o, a, bb) => format!("(op {} {} {})", o, a.sexp(), bb.sexp()),
            Expr::Index(a, i) => format!("(index {} {})", a.sexp(), i.sexp()),
            Expr::Call(f, args) => format!("(call {} {})", f.sexp(), many(args)),
            Expr::And(a, bb) => format!("(and {} {})", a.sexp(), bb.sexp()),
            Expr::Or(a, bb) => format!("(or {} {})", a.sexp(), bb.sexp()),
            Expr::Coalesce(a, bb) => format!("(coalesce {} {})", a.sexp(), bb.sexp()),
            Expr::Seq(xs, semi) => format!("(seq {} {})", if *semi { 1 } else { 0 }, many(xs)),
            Expr::If(c, t, e) => match e {
                Some(e) => format!("(if {} {} {})", c.sexp(), t.sexp(), e.sexp()),
                None => format!("(if {} {})", c.sexp(), t.sexp()),
            },
            Expr::While(c, bb) => format!("(while {} {})", c.sexp(), bb.sexp()),
            Expr::For(its, body) => {
                let its_s = its
                    .iter()
                    .map(|it| match it {
                        ForIt::Iter(k, p, e) => format!(
                            "(iter {} {} {})",
                            match k {
                                IterKind::Normal => "normal",
                                IterKind::Item => "item",
                                IterKind::Declare => "declare",
                            },
                            p.sexp(),
                            e.sexp()
                        ),
                        ForIt::Guard(e) => format!("(guard {})", e.sexp()),
                    })
                    .collect::<Vec<_>>()
                    .join(" ");
                let body_s = match body {
                    ForBody::Exec(e) => format!("(exec {})", e.sexp()),
                    ForBody::Yield(e, None) => format!("(yield {})", e.sexp()),
                    ForBody::Yield(e, Some(i)) => format!("(yield {} {})", e.sexp(), i.sexp()),
                    ForBody::YieldItem(k, v, None) => format!("(yielditem {} {})", k.sexp(), v.sexp()),
                    ForBody::YieldItem(k, v, Some(i)) => {
                        format!("(yielditem {} {} {})", k.sexp(), v.sexp(), i.sexp())
                    }
                };
                format!("(for ({}) {})", its_s, body_s)
            }
            Expr::Declare(p, e) => format!("(decl {} {})", p.sexp(), e.sexp()),
            Expr::Assign(x, e) => format!("(assign {} {})", x, e.sexp()),
            Expr::OpAssign(x, o, e) => format!("(opassign {} {} {})", x, o, e.sexp()),
            Expr::Lambda(ps, body) => {
                let ps_s = ps
                    .iter()
                    .map(|p| {
                        let sp = if p.splat { 1 } else { 0 };
                        match (&p.dflt, &p.ann) {
                            (Some(d), None) => format!("(param {} {} {})", p.name, sp, d.sexp()),
                            (None, None) => format!("(param {} {})", p.name, sp),
                            (Some(d), Some(a)) => format!("(param {} {} (dflt {}) (ann {}))", p.name, sp, d.sexp(), a.sexp()),
                            (None, Some(a)) => format!("(param {} {} (ann {}))", p.name, sp, a.sexp()),
                        }
                    })
                    .collect::<Vec<_>>()
                    .join(" ");
                format!("(lambda ({}) {})", ps_s, body.sexp())
            }
            Expr::Break(n, e) => match e {
                Some(e) => format!("(break {} {})", n, e.sexp()),
                None => format!("(break {})", n),
            },
            Expr::Continue(n) => format!("(continue {})", n),
            Expr::Return(e) => match e {
                Some(e) => format!("(return {})", e.sexp()),
                None => "(return)".into(),
            },
            Expr::Throw(e) => format!("(throw {})", e.sexp()),
            Expr::Try(bb, p, c) => format!("(try {} {} {})", bb.sexp(), p.sexp(), c.sexp()),
            Expr::EvalSrc(e) => format!("(eval {})", e.sexp()),
            Expr::Freeze(e) => format!("(freeze {})", e.sexp()),
            Expr::Switch(sc, arms) => format!(
                "(switch {} {})",
                sc.sexp(),
                arms.iter().map(|(p, b)| format!("(arm {} {})", p.sexp(), b.sexp())).collect::<Vec<_>>().join(" ")
            ),
        }
    }

    pub fn size(&self) -> usize {
        self.sexp().matches('(').count()
    }
}
